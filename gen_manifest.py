#!/usr/bin/env python3
"""Generates MANIFEST.json from the table below; validates it when jsonschema is available."""
import json, sys
CHECKS = {
 "C20": dict(level="exploration", engine="E3", ref="5/C20",
   technique="bounded-exhaustive enumeration (complete cross product of boundary alphabets + complete windows) against a math/big reference model",
   text="Every combination of prefix length 0..128, 8 base bit patterns, 13 block distances around 2^32/2^63/2^64/end-of-space, 3 in-block offsets and both argument orders is executed on the real Offset/AddPrefixes and compared with exact big-integer arithmetic; complete windows of 301 consecutive block indices across the 64-bit and 128-bit carries. Exhaustive over the carry/borrow/shift shapes, not over all 2^128 values.",
   note="Trusts math/big as reference. Values outside the listed alphabets are not explored."),
}
ALL = ["C%02d" % i for i in range(1, 21)]
NA_REASON = "check not built yet in this session (planned, see DESIGN.md section 5); will be claimed once its machinery exists"
m = {
 "version": 1,
 "setup_cmd": "./setup.sh",
 "hooks": {
  "guard": "verif",
  "enable": "go build -tags verif (the ./check script always builds /repo's working tree with -tags verif; scheduler-based checks additionally use a go build -overlay generated at check time by mc/cmd/instr)",
  "baseline_off_cmd": "cd /repo && GOFLAGS=-mod=mod GOPROXY=off GOSUMDB=off GOTOOLCHAIN=local go test -json -vet=off -count=1 -timeout 25m ./...",
  "source_commits": json.load(open("hook_commits.json")) if __import__("os").path.exists("hook_commits.json") else [],
  "add_only": True,
 },
 "engines": [
  {"name": "E1 explicit-state BFS over real handlers", "path": "mc/explore", "serves_properties": [], "kind_free_text": "explicit-state model checking where every transition is an execution of the real code on a fresh instance (replay of the shortest path + 1 op); state key = hook dump + observer ghost"},
  {"name": "E2 cooperative scheduler + preemption-bounded DFS", "path": "mc/sched + mc/verifsched + mc/cmd/instr", "serves_properties": [], "kind_free_text": "stateless model checking of the implementation: sync replaced by a shim through go build -overlay, Yield() injected before every statement, all schedules up to a preemption bound"},
  {"name": "E3 bounded-exhaustive enumerator vs reference model", "path": "mc/checks/*", "serves_properties": ["C20"], "kind_free_text": "complete cross product of small per-dimension alphabets executed on the real code and compared with a reference written from the property text"},
 ],
 "checks": [],
 "not_applicable": [],
 "notes": "All checks: ./check <ID> <quick|thorough> [--replay file]; exit 0 held, 1 VIOLATION, 2 checker error. Known findings: known_findings.json.",
}
for pid in ALL:
    c = CHECKS.get(pid)
    if not c:
        m["not_applicable"].append({"property_id": pid, "reason": NA_REASON})
        continue
    m["checks"].append({
     "property_id": pid,
     "quick_cmd": "./check %s quick" % pid,
     "thorough_cmd": "./check %s thorough" % pid,
     "evidence_file": "/verif/evidence/%s.json" % pid,
     "replay_cmd_template": "./check %s quick --replay {path}" % pid,
     "engine": c["engine"],
     "level_claimed": {"category": c["level"], "text": c["text"], "design_ref": c["ref"]},
     "level_note": c["note"],
     "technique": c["technique"],
    })
json.dump(m, open("MANIFEST.json", "w"), indent=1)
try:
    import jsonschema
    jsonschema.validate(m, json.load(open("/root/.vp/MANIFEST.schema.json")))
    print("MANIFEST.json valid;", len(m["checks"]), "checks claimed")
except ImportError:
    print("MANIFEST.json written (jsonschema not available to validate)")
