#!/usr/bin/env python3
"""Generates MANIFEST.json from the table below; validates it when jsonschema is available."""
import json, sys
CHECKS = {
 "C20": dict(level="exploration", engine="E3", ref="5/C20",
   technique="bounded-exhaustive enumeration (complete cross product of boundary alphabets + complete windows) against a math/big reference model",
   text="Every combination of prefix length 0..128, 8 base bit patterns, 13 block distances around 2^32/2^63/2^64/end-of-space, 3 in-block offsets and both argument orders is executed on the real Offset/AddPrefixes and compared with exact big-integer arithmetic; complete windows of 301 consecutive block indices across the 64-bit and 128-bit carries. Exhaustive over the carry/borrow/shift shapes, not over all 2^128 values.",
   note="Trusts math/big as reference. Values outside the listed alphabets are not explored."),
}

ALLOC_NOTE = "State key reads the bitmap through hook VerifBits; verdicts only use Allocate/Free return values and a math/big geometry. Pools limited to <=16 blocks in graphs, <=257 in sweeps."
CHECKS["C04"] = dict(level="model_checking", engine="E1", ref="5/C04",
   technique="explicit-state BFS to fixpoint over the real allocator (every transition executes Allocate/Free on a fresh instance), ghost set of outstanding blocks as oracle",
   text="For every pool of the alphabet (IPv4 ranges of 1-4 addresses incl. one ending at 255.255.255.255; IPv6 pools of 1-8 blocks on both sides of the 64-bit boundary, ::/0 and the top of the address space) the complete reachable state graph under {Allocate with no hint / a hint on every block / hints outside, Free of every outstanding block} is explored to fixpoint on the real code; on every transition a successful Allocate must not return a block in the ghost set of outstanding blocks. Merged states are re-executed from a second path (differential oracle).",
   note=ALLOC_NOTE)
CHECKS["C05"] = dict(level="model_checking", engine="E1", ref="5/C05",
   technique="explicit-state BFS to fixpoint with the full hint-shape alphabet + exhaustive linear fill sweeps over pool geometries, against a math/big geometry reference",
   text="Same graphs as C04 with every hint shape (lengths 0, page-1, page, page+1, 128; 4-byte and 16-byte IPs; nil and 32-bit-wide masks; unaligned addresses); every successful allocation is checked for pool membership, alignment and length, every failure for 'all N outstanding', ErrNoAddrAvail and unchanged state. Sweeps fill 18 IPv4 ranges (sizes 1..257 incl. 63/64/65, clipped at 255.255.255.255) and ~300 IPv6 geometries (pool lengths 0..127 x 2^1..2^8 blocks x 5 bases) to exhaustion, free first/middle/last and refill.",
   note=ALLOC_NOTE)
CHECKS["C06"] = dict(level="model_checking", engine="E1", ref="5/C06",
   technique="explicit-state BFS to fixpoint with foreign Free operations in the alphabet; reference: Free succeeds iff an outstanding block contains the prefix",
   text="C04 graphs extended with Free of every block whether held or not, sub-prefixes (/page+1, /128) of every block, and prefixes 1, 2, N, N+1 and 2^16 blocks below the pool base and above its end. Oracle on every transition: nil error iff the prefix lies inside a ghost-outstanding block, then exactly that block is released; otherwise the bitmap is unchanged; the C04 disjointness oracle keeps running so a wrong Free also shows as the double allocation it causes.",
   note=ALLOC_NOTE + " Super-prefix frees and mismatched IP/mask widths are outside the stated domain.")
CHECKS["C07"] = dict(level="model_checking", engine="E1", ref="5/C07",
   technique="explicit-state BFS to fixpoint; every Allocate(hint naming a free block) transition in every reachable state checked, plus word-boundary hint families",
   text="On every transition of the C05 graphs whose hint names a currently free block (IPv4 4-/16-byte forms; IPv6 hints at block base, base+1, last address; nil / 32-bit masks) the returned block must be exactly that block. Word-boundary family: pools of 63/64/65 (thorough: 127..257) blocks with everything held except j, for every j next to a 64-bit bitmap word boundary, and hints on a sparse pool.",
   note=ALLOC_NOTE)

SRV_NOTE = "Socket I/O replaced by hook H1 (WriteTo/ReadFrom shadowing, L2 frame sink): everything up to the write call runs unmodified; the kernel send path and AF_PACKET syscalls are not executed. Oracle parses raw bytes with an independent RFC parser (mc/pkt)."
CHECKS["C11"] = dict(level="exploration", engine="E3", ref="5/C11",
   technique="bounded-exhaustive enumeration: complete cross product of header/option alphabets through the real HandleMsg4, byte-level reference from the property text",
   text="All 256 opcodes x 257 message-type values (65 792 datagrams) plus the full product of xid/htype/hlen/flags/giaddr/ciaddr/option 82/option 61 values under five plugin chains (empty, range, server_id+range, NAK-producing, nil-returning) and every truncation of three seeds are run through the real per-datagram entry point; each reply is compared field by field with its request, and non-requests must stay unanswered.",
   note=SRV_NOTE)
CHECKS["C12"] = dict(level="exploration", engine="E3", ref="5/C12",
   technique="bounded-exhaustive enumeration: complete cross product (type byte x client-id x rapid-commit x relay depth x per-layer variants x peer x listener binding) through the real HandleMsg6, byte-level reference",
   text="Every message-type byte 0..255 with/without client-id and rapid-commit, relay nesting depth 0..2 (thorough 0..4) with nine per-layer address/option variants, global and link-local peers, bound/unbound listeners, with/without receive control message: reply type, xid, client-id, per-layer link/peer/Interface-ID mirroring, enclosed answer, destination and interface pinning are checked on the wire bytes; unsupported types, Relay-Reply and unparseable datagrams must stay unanswered.",
   note=SRV_NOTE)
CHECKS["C13"] = dict(level="exploration", engine="E3", ref="5/C13",
   technique="bounded-exhaustive enumeration of plugin chains (all behaviour sequences up to length 4/5, all kind placements up to length 3) against a reference chain interpreter",
   text="All chains of 0..4 (thorough 0..5) synthetic plugins over {pass, modify, replace, stop, stop-with-nil} for both protocols, loaded through the real plugins.LoadPlugins (and config.Load from generated YAML) and executed by HandleMsg4/6: instantiation order, invocation order, request identity, response threading, what is sent, and rejection of unknown / failing plugins are compared with a reference interpreter.",
   note="Synthetic plugins are registered through plugins.RegisterPlugin. server.Start is not executed.")
CHECKS["C14"] = dict(level="exploration", engine="E3", ref="5/C14",
   technique="bounded-exhaustive enumeration of the RFC 8415 s.16 decision table (type x server-id variant x relay depth) and the DHCPv4 siaddr/option-54 table, one process per server_id configuration",
   text="For each accepted server_id configuration (own process, because the id is a package global): 16 message types x 8 Server Identifier variants x relay depth 0..1(2), both as direct handler calls and through HandleMsg6; DHCPv4 siaddr {0, own, other} x option 54 {absent, own, other, zero} x {DISCOVER, REQUEST}. Dropped/accepted is compared with the table in the property and accepted replies must carry exactly this server's identifier.",
   note=SRV_NOTE)
CHECKS["C15"] = dict(level="exploration", engine="E3", ref="5/C15",
   technique="bounded-exhaustive enumeration of the RFC 2131 s.4.1 decision table through the real HandleMsg4 + sendEthernet (frame captured before the raw socket)",
   text="giaddr x ciaddr in {0, routable, link-local, broadcast} x broadcast flag x reply type {OFFER, ACK, NAK} x yiaddr x listener {unbound, bound to each host interface} x receiving interface: destination address and port, interface pinning, and for link-level replies the Ethernet/IP/UDP headers and payload of the serialised frame are compared with the cascade as worded in the property.",
   note=SRV_NOTE + " Interface set is the sandbox's (lo has no MAC, so link-level frames on lo are not produced).")

CHECKS["C17"] = dict(level="exploration", engine="E3", ref="5/C17",
   technique="bounded-exhaustive enumeration: every accepted argument vector of the alphabet x every PRL/ORO subset and order x response-stub variants, one process per configuration, against independent RFC encoders",
   text="For each option plugin and each accepted argument vector of the alphabet (own process: configuration lives in package globals) the real handler is called with every request of a battery (parameter/option request list absent, empty, unrelated, every subset of the plugin's codes in every order, duplicates; OFFER/ACK; yiaddr set or not; lease time already present; option 116 present) and the returned response is compared on the wire with independently encoded expected values and the entitlement rules of the property, including stop/nil behaviour of ipv6only and autoconfigure and 'nothing else changes'.",
   note="Handlers are called directly with library-parsed requests and server-style response stubs. An empty parameter request list is not asserted. DHCPv6 boot-file parameters are checked for presence only.")
CHECKS["C19"] = dict(level="exploration", engine="E3", ref="5/C19",
   technique="bounded-exhaustive enumeration of argument vectors (arity 0..2, thorough 0..3, over per-plugin atom alphabets incl. foreign kinds) x request battery, one process per vector",
   text="Every argument vector up to the arity bound over valid, boundary and invalid atoms of each argument kind for all 15 built-in plugins is passed to the real Setup in its own process; if accepted, the handler is driven with the request battery (incl. IA_NA/IA_PD with in-pool and v4-mapped hints, relayed) and must not panic, and its reply must survive ToBytes->FromBytes->ToBytes byte-identically with every plugin-owned option re-parsing to the same bytes under a typed parser. A worker that dies (log.Fatal, runtime fatal) is re-run alone and reported.",
   note="Values that are silently truncated but still well-formed on the wire (mtu 65536 -> 0) satisfy the stated round-trip criterion and are not reported. sleep durations <= 1ms, pool orders <= 16.")

CHECKS["C18"] = dict(level="exploration", engine="E3", ref="5/C18",
   technique="bounded-exhaustive enumeration of a configuration grammar (sections x listen forms x 35 address spellings x plugin-section shapes x item lists) through the real config.Load, plus 1-deviation closure of seed documents for no-panic",
   text="Every document of the grammar is written to a file and loaded with the real config.Load; the loaded plugin names/arguments (file order, whitespace splitting) and listen addresses (ip/zone/port, wildcard and default port, multicast expansion computed from the host's interfaces) are compared with the statement, and the six rejection clauses are asserted. Every single-character insert/replace/delete/truncate of the seed documents over the YAML-significant characters is loaded for no-panic.",
   note="viper/yaml are exercised as shipped. Multicast expansion is checked for the sandbox's interface set only. Spellings on which the statement is silent (out-of-range ports, bare IPv6, v4-mapped, bare-string items, default listeners) are enumerated for no-panic only.")
CHECKS["C10"] = dict(level="model_checking", engine="E3+E1", ref="5/C10",
   technique="bounded-exhaustive enumeration of all lease files up to 3/4 lines against a reference parser + explicit-state BFS to fixpoint of the autorefresh event graph (reload = real watcher-loop body) + dual-stack configurations",
   text="All lease files of 0..3 (thorough 0..4) lines over a 16-line alphabet, both protocols: Setup must err exactly when the reference parser rejects, and every probe MAC is looked up through the real handlers (v6 client identification by DUID-LL, DUID-LLT, RFC 6939 relay option and EUI-64 peer, with and without IA_NA). The autorefresh graph {write good1/good2/bad/empty/wrong-family, reload} is explored to fixpoint with the invariant 'served mapping = last well-formed content reloaded'. Dual-stack: both setup orders with a v6 reload. Thorough adds a binding run with the real fsnotify watcher.",
   note="inotify delivery is not modelled (reload events are explicit; one binding run with the real watcher, inconclusive on timeout). Known finding: dual-stack shares one table (known_findings.json).")

PD_NOTE = "Handler instance found through hook H4 (capture on entry); state key from the hook dump; verdicts only from reply bytes (independent parser) and the hook's record dump for the 'remembered' clause. The plugin has no expiry, so histories are monotone and the fixpoint is real."
CHECKS["C08"] = dict(level="model_checking", engine="E1", ref="5/C08",
   technique="explicit-state BFS to fixpoint over the real prefix-delegation handler (every transition = one wire-format message handled by the real code), ghost of prefixes told per client as oracle",
   text="Complete reachable state graph of the prefix plugin for 2 clients (thorough: 3) on pools of 2-4 blocks under a message alphabet covering every hint shape of the property (none, ::/0, length-only, own, other client's, free, longer than the allocation size, out-of-pool, several hints, several IA_PDs, relayed, no client-id); on every transition each delegated prefix is checked for pool membership, alignment, size, lifetimes and disjointness from every other client's holdings, and IA_PD/IAID correspondence with NoPrefixAvail on exhaustion.",
   note=PD_NOTE)
CHECKS["C09"] = dict(level="model_checking", engine="E1", ref="5/C09",
   technique="explicit-state BFS to fixpoint over the real prefix-delegation handler; per-transition oracle on renewals/repeats against the ghost of what each client was told",
   text="Same graph as C08; on every transition from a state where the client holds prefixes: an IA_PD naming exactly a held prefix must return it, a hint-less IA_PD must return the held prefixes and nothing new, such repeats must not change the number of allocated blocks, lifetimes must not shrink (one-sided clock comparison), and every prefix delegated in a reply must be in the server's record for that client.",
   note=PD_NOTE)

LEASE_NOTE = "Real sqlite on a private tmpfs directory; instance state read through hook H3 for the state key and for restored bindings; replies are the handler's return values. sqlite's own torn-write recovery and I/O errors are outside the model."
CHECKS["C02"] = dict(level="model_checking", engine="E1", ref="5/C02",
   technique="explicit-state BFS to fixpoint over the real range plugin + sqlite (transitions = DISCOVER/REQUEST per client, RESTART with same/other lease time), ghost of first address per client as oracle; linear exhaustion sweeps",
   text="Complete reachable state graph for N+1 clients on ranges of N in {2,3} (thorough: 4, plus pre-filled 65-address and end-of-address-space ranges across a bitmap word boundary): on every transition the reply must be in range, equal to the address first given to that client, not bound to any other client, carry the configured lease time, be withheld only when all addresses are bound and the client is unknown; every restart on the plugin's own database must succeed and preserve records and bitmap. Sweeps fill ranges of 2..257 addresses (incl. 63/64/65, ending at 255.255.255.255) to exhaustion with a restart.",
   note=LEASE_NOTE + " Concurrent schedules are covered by the scheduler-based part (see C16).")
CHECKS["C03"] = dict(level="fault_enumeration", engine="E1+crash images", ref="5/C03",
   technique="crash-point enumeration: the lease database is copied at every state of the explicit-state graph (and in sweeps over chaddr lengths 0..16 and hostile hostnames) and the real plugin is started on each image",
   text="Every state reached by the C02 graph is a crash point: the sqlite file as it is on disk is copied and the real setupRange runs on the copy; it must succeed and restore exactly the client-to-address bindings replied so far (none lost, changed, duplicated or invented; allocator marks = bindings; one row per client), with a stored expiry not earlier than the end of the lease last promised (1 s resolution, one-sided clock comparison). Sweeps: chaddr lengths 0..16 plus numeric-looking one-byte addresses, 12 hostnames (numeric-looking, NUL, 0xff, quotes, 255 bytes), each followed by a restart.",
   note=LEASE_NOTE)

CHECKS["C16"] = dict(level="model_checking", engine="E2+E4", ref="5/C16",
   technique="stateless model checking of the implementation: cooperative scheduler replacing sync (overlay build), Yield before every statement, all schedules up to a preemption bound through the real Serve loop; serialisability against the implementation's own sequential runs; separate free-running -race pass",
   text="For each scenario (same client twice, two/three clients with fewer free addresses or blocks, static lookup during a lease-file reload, two different datagrams with forced receive-buffer reuse; DHCPv4 chain server_id+file+range+dns and DHCPv6 chain server_id+file+prefix+dns) every schedule with at most 2 preemptions (thorough 3; one less when a third/fourth thread exists) at statement granularity is executed on the real code through the real Serve loop and sync.Pool replacement; the outcome (replies per transaction id + final lease state) must equal that of some sequential order computed with the implementation itself; per-reply oracles (reply belongs to its request, server id, lifetimes), lease-table/bitmap consistency, deadlock and lock-left-held detection run on every schedule. The same scenario bodies (plus dual-stack file instances with their real fsnotify watchers) then run free under the Go race detector (200 / 2000 rounds).",
   note="Scheduling points exist only in the instrumented coredhcp packages (server, range, prefix, file, bitmap allocators); logrus, database/sql, sqlite and the DHCP codec run atomically between points. The race pass is a detector over the executions that ran, not an enumeration. At most 3 concurrent datagrams.")
for k in ("C02","C04","C08"):
    CHECKS[k]["engine"] = "E1+E2"
CHECKS["C04"]["technique"] += "; plus E2: all schedules up to 2/3 preemptions of 2-3 threads x 1-2 ops on a 2-block pool, serial-order oracle and porcupine linearizability check"
CHECKS["C02"]["technique"] += "; plus E2: C16's DHCPv4 scenarios (same client twice, two/three clients at exhaustion) under all schedules up to the preemption bound"
CHECKS["C08"]["technique"] += "; plus E2: C16's DHCPv6 prefix scenarios under all schedules up to the preemption bound"

CHECKS["C01"] = dict(level="exploration", engine="E3+E1", ref="5/C01",
   technique="deviation-bounded exhaustive enumeration: all grammar-generated seed datagrams and their complete 1-deviation closure through the real HandleMsg4/6 under plugin chains (one process per chain), plus all datagram sequences up to depth 2/3 on fresh lease plugins",
   text="~770 DHCPv4 and ~1930 DHCPv6 grammar seeds (message types x hardware-address lengths x option sets x relay nesting up to the deepest that fits a datagram) plus all byte strings of length 0..2 are handled by the real per-datagram entry points under every single built-in plugin, the example-config chains and full chains in three rotations (thorough: every ordered pair of plugins), for bound/unbound listeners with/without receive control message; for the full chains also every truncation, single-bit flip, boundary-byte substitution and adjacent option swap of the seeds (quick: 64 seeds per chain). Every sequence of up to 2 (thorough 3) state-relevant datagrams runs on fresh range/prefix instances. Oracle: no panic, at most one reply, lease-plugin mutex free afterwards, the probe client still served at the end, no datagram exceeds the watchdog; a worker that dies (log.Fatal, fatal error) is re-run alone and reported.",
   note="Socket writes are captured by hook H1. Datagrams more than one deviation away from a seed and chains of 3+ plugins beyond the listed ones are not explored. Hang detection uses a 20 s per-datagram watchdog confirmed by a re-run.")
CHECKS["C02"]["text"] += " An 'age' operation (hook VerifAge: every stored lease made two hours older, in memory and in sqlite) stands in for elapsed time, with a per-client 'expired' flag in the state key; ranges crossing a /24 boundary are part of the graphs."
CHECKS["C03"]["text"] += " The promised end of lease is read from the reply's option 51 (also under a lease_time-before-range chain); aging, a renewal after a real 2 s delay, and statement-level crash points (database copied before every statement of the handler and storage code on all histories of up to 2/3 requests) are included."
CHECKS["C08"]["text"] += " Time passing is an operation of the alphabet (all leases aged by more than an hour through hook VerifAge); a many-leases sweep gives one client 1..12 prefixes on a 32-block pool."
CHECKS["C09"]["text"] += " Aging and the many-leases sweep as in C08."
CHECKS["C05"]["text"] += " Big-pool fills (2^17 IPv6 blocks, 70 000 IPv4 addresses) to exhaustion."
CHECKS["C06"]["text"] += " Frees of prefixes of the other address family whose low bits spell a block are part of the alphabet."
CHECKS["C13"]["text"] += " Each chain's request is delivered through the real Serve loop under the cooperative scheduler (default schedule), and a sixth behaviour 'replace and stop' is part of the alphabet."
CHECKS["C17"]["text"] += " Dual-stack vectors configure the same plugin under server6 and server4 with different values through the real loader."
CHECKS["C19"]["text"] += " Dual-stack configurations of every dual plugin go through plugins.LoadPlugins."
CHECKS["C01"]["text"] += " The lookup-during-reload scenarios of C16 are explored under all schedules up to the preemption bound for deadlocks and locks left held."
CHECKS["C15"]["text"] += " Every ordered pair of 16 representative requests is also run on ONE listener (unbound and bound): listener state must not influence the next reply."
for k in ("C02","C03","C04","C05","C06","C07","C08","C09"):
    CHECKS[k]["note"] += " Explorations run in a worker process; every call into the code under test is bracketed by a 30 s watchdog (a reproducible hang or fatal error is reported as a violation, a panic in checker code as exit 2). If the state key turns out not to determine behaviour the configuration is re-explored without merging to depth 4."
# ---- additions of seed rounds 4 and 5
for k in ("C05", "C06"):
    CHECKS[k]["engine"] = "E1+E2"
CHECKS["C03"]["engine"] = "E1+crash images+E2"
CHECKS["C11"]["engine"] = "E3+E2"
CHECKS["C05"]["technique"] += "; plus E2: C04's concurrent Allocate/Free scenarios under all schedules up to 2/3 preemptions (capacity stays exact when callers race)"
CHECKS["C06"]["technique"] += "; plus E2: two/three threads freeing the same outstanding block (and allocating) under all schedules up to 2/3 preemptions, serial-order oracle + porcupine"
CHECKS["C03"]["technique"] += "; plus E2 with a virtual clock: 2-3 requests racing for the plugin mutex under all schedules up to 1/2 preemptions, every lock wait costs 10 virtual minutes, stored expiry compared with the promise of each reply"
CHECKS["C11"]["technique"] += "; plus E2: two different datagrams with forced receive-buffer reuse under all schedules up to the preemption bound (reply must match its own request)"
CHECKS["C03"]["text"] += " The instrumenter routes time.Now/Until/Since of the instrumented files through the scheduler's clock (running code takes no virtual time, waiting for a lock takes 10 minutes): in the scenarios new||new, renew||new, renew||renew, same-client-twice (thorough: three threads) the expiry found by a restart on the database must not be earlier than (virtual time at which the handler returned) + lease time - 1 s - 5 min real-time tolerance. A restart on the database opened read-only (SQLite mode=ro) is an environment-fault operation of the alphabet: start-up may refuse; if it accepts, later requests must be served without a crash."
CHECKS["C02"]["text"] += " Environment fault in the alphabet: restart with the lease database opened read-only (start-up may refuse; afterwards only request operations are explored and the reply oracles stay in force)."
CHECKS["C19"]["text"] += " The one stateful built-in (range) is additionally driven through every history of <=2 requests, a restart on the lease database opened read-only (accepted at start-up) and <=2 further requests from 3 clients: no panic."
CHECKS["C04"]["text"] += " A 2^21-block pool whose first 2^16 / 2^20 blocks are taken by hinted allocations is then asked for un-hinted blocks: none may be an outstanding one (lazily grown bitmaps)."
CHECKS["C05"]["text"] += " The 2^21-block hinted-prefix fill of C04 is checked for capacity as well."
CHECKS["C08"]["text"] += " IA_PD T1/T2 values as a client may send them (0/0, T1>T2, all-ones) are part of the message alphabet."
CHECKS["C09"]["text"] += " IA_PD T1/T2 variants as in C08; a repeat IA_PD that receives no IA_PD at all in the reply is a violation (repeat-not-answered)."
CHECKS["C12"]["text"] += " Peers vary in source port (546, 547, ephemeral) as well as address scope; per-layer variants place Interface-ID before and Remote-ID after the Relay-Message option of their layer."
CHECKS["C17"]["text"] += " staticroute destinations are also given un-normalised (host bits set, e.g. 10.0.5.0/20): option 121 must carry the masked destination's significant octets only."
CHECKS["C14"]["text"] += " DHCPv4 chains [server_id, X] for every other built-in plugin X, one at a time: the reply still carries this server's identifier."
CHECKS["C15"]["text"] += " Option 82 sub-option variants (agent circuit-id, link selection, server-id override) are part of the request alphabet."
CHECKS["C20"]["text"] += " Base patterns include IPv4-mapped and IPv4-compatible addresses (11 patterns)."
# ---- additions of seed round 6
CHECKS["C01"]["text"] += " Modes 'graphs': the state graphs of C02 (requests, restarts, aging, read-only lease database) and C08 (all hint shapes, Release/Rebind, aging by an hour and by two days) are explored breadth-first under id C01 within a time budget (150 s quick, 25 min thorough) looking only for crashes, locks left held and non-termination."
CHECKS["C02"]["text"] += " Requests also carry option 61 (an opaque identifier shared by all clients; the conventional 01||chaddr form): the binding stays a function of the hardware address."
CHECKS["C07"]["text"] += " Far hints: pools of 2^25..2^27 blocks (thorough 2^29) and IPv4 ranges of 2^25 addresses, hints naming the last block, blocks just past 2^24+2^16, 2^25, 2^26 on a fresh allocator and after three allocations."
CHECKS["C08"]["text"] += " Release and Rebind messages naming the client's own prefix address with the exact, a shorter and a longer length are part of the alphabet (for a Release only the safety clauses are asserted). Aging by two days is a second aging operation with its own flag in the state key. The search stops after the first level that produced a violation."
CHECKS["C09"]["text"] += " Release/Rebind ops and the two-day aging as in C08."
CHECKS["C10"]["text"] += " Binding runs with the real inotify watcher, one process per spelling of the configured path (clean, dir/./f, dir//f, dir/sub/../f, ./f, symlink into another directory): a well-formed rewrite must be loaded; verdicts only when the clean spelling (control) loads."
CHECKS["C11"]["text"] += " Size dimension: option 82 of 1..255 octets x option 61 of 2..255 x option 57 {absent, 300, 576, 1500} x giaddr x type x chain."
CHECKS["C13"]["text"] += " Binding run through the real server.Start on loopback sockets (both protocols): a request sent from inside the set-up function of each configured plugin must stay unanswered; after Start returns the reply carries the markers of both plugins in configured order."
CHECKS["C13"]["note"] = "Synthetic plugins are registered through plugins.RegisterPlugin. server.Start is executed only in the loopback binding run (needs root for the DHCPv4 relay port 67; skipped, not failed, when sockets cannot be opened)."
CHECKS["C14"]["text"] += " Server Identifier variants include DUIDs of 130, 131, 200, 500 and 1000 octets and the own DUID padded to 131/300."
CHECKS["C15"]["text"] += " The hardware type of the request varies over {1, 6, 32, 255}."
CHECKS["C16"]["text"] += " Wide scenarios: 1200 (thorough 6000) requests of different clients are handled one at a time and all in flight at once (round-robin policy schedule); replies, answered transactions and distinct addresses/prefixes must agree."
CHECKS["C16"]["technique"] += "; plus one policy-driven (round-robin) schedule with 1200/6000 handler threads in flight"
CHECKS["C18"]["text"] += " Plugin items include argument strings with literal quotes, backslashes, '#', ',' ';' and escaped tab/newline (arguments are exactly the whitespace-separated fields)."
# ---- additions of seed round 7
CHECKS["C02"]["text"] += " Irrelevant-option closure: for every other option code (three payload shapes) two clients ask with and without it in both orders; time-gap sweeps (1 s .. 61 min between two requests of one client, three lease times)."
CHECKS["C03"]["text"] += " The irrelevant-option closure and the time-gap sweeps of C02 run with the crash-image oracle after every step."
CHECKS["C04"]["text"] += " Far hints include a 2^33-block pool (indices beyond 32 bits); a block returned for a hint is named again by the next hint and must not come back."
CHECKS["C05"]["text"] += " Free-each-after-fill: pools of 65..257 (thorough 1024) blocks filled, then every block (and descending pairs) freed and re-allocated without hint: the allocation must succeed and return a freed block."
CHECKS["C06"]["text"] += " Free of EVERY block that is not outstanding, on fresh and half-allocated pools of 257/1024 blocks, must fail."
CHECKS["C08"]["text"] += " Irrelevant-option closure (every other DHCPv6 option code, three payload shapes, before/after the IA_PDs); the same client reached through different relay agents (link-address variants) and directly."
CHECKS["C09"]["text"] += " Irrelevant-option closure and relay link-address variants as in C08."
CHECKS["C12"]["text"] += " Replies of 1.2-20 KiB (long Interface-ID / client identifier) on listeners bound to every host interface; a well-formed relayed request of a supported type that gets no reply under a non-dropping chain is a violation."
CHECKS["C15"]["text"] += " Irrelevant-field closure: one representative per cascade rule x every other option code (three payload shapes) and hops/secs values."
CHECKS["C17"]["text"] += " Accepted vectors include lists longer than 255 octets (searchdomains, dns, router, staticroute): the value must arrive complete (RFC 3396 splitting is accepted)."
CHECKS["C19"]["text"] += " The request battery varies vendor class (6 values) and option 93 (absent, empty, odd length, one or two architectures) independently."
# ---- additions of seed round 8
CHECKS["C01"]["text"] += " Environment deviation: all seeds are handled once more with every send failing (hook VerifIO.SendErr: ENETUNREACH on the UDP socket; VerifSetFrameFault: EPERM at the raw socket)."
CHECKS["C02"]["text"] += " Upgrade histories: the plugin is started on a database the harness wrote with the released schema (empty, or with one background lease), then requests and restarts."
CHECKS["C03"]["text"] += " The upgrade histories of C02 run with the crash-image oracle."
CHECKS["C07"]["text"] += " Long histories: after 5000 (thorough 70 000) un-hinted allocations, 16 blocks spread over the allocated part are freed and named by the next hint."
CHECKS["C08"]["text"] += " Six non-canonical spellings of the configured pool (host bits set, upper case, uncompressed) are filled by two clients under all oracles."
CHECKS["C10"]["text"] += " One binding run installs the update by renaming a temporary file over the lease file."
CHECKS["C11"]["text"] += " Part B3: the request product under three environment faults (every send fails; raw socket refused with EPERM / EACCES): whatever is handed to the socket still has to match its request."
CHECKS["C13"]["text"] += " A seventh behaviour 'slow' (modify after an hour of virtual processing time, through the scheduler's clock) is part of the chain alphabet."
CHECKS["C14"]["text"] += " The DHCPv4 table also varies giaddr and option 82 (circuit-id, RFC 5107 server-identifier-override naming another / the own address / malformed, RFC 3527 link selection)."
CHECKS["C15"]["text"] += " The shaping plugin also sets or clears the REPLY's broadcast bit: the cascade follows the client's flag."
CHECKS["C18"]["text"] += " Representative documents are also stored under 11 other file names (.yaml, .conf, .cfg, .yml.new, no extension, .json, .toml, .ini, upper case, with a blank, hidden)."
CHECKS["C20"]["text"] += " Purity: every ordered pair of base patterns goes through one reused argument buffer in three call orders and is judged against math/big (results must not depend on call history). Thorough: 5 700 base patterns (single-bit, 2^k-1, two-bit) x distances 2^k-1, 2^k, 2^k+1 (2 x 10^8 evaluations)."
# ---- additions of seed round 9 and of the proactive closures
CHECKS["C02"]["text"] += " Environment op: another connection holds the database's write lock for 300 ms while a request is handled."
CHECKS["C03"]["text"] += " The locked-database op of C02 runs with the crash-image oracle."
for k in ("C04","C05","C06"):
    CHECKS[k]["text"] += " The graphs have a 'tick' operation (an hour of virtual time passes for the instrumented allocator); a 4-address range across every /8 boundary of IPv4 and a 4-block pool at every /8 of IPv6 hold exactly 4 and honour every hint."
CHECKS["C08"]["text"] += " Time gaps of 1 s .. 25 h between the messages of one client; Confirm and Information-Request messages (safety clauses only)."
CHECKS["C09"]["text"] += " Time-gap sweeps as in C08."
CHECKS["C11"]["text"] += " Part B4: every other option code in three payload shapes added to a relayed request."
CHECKS["C12"]["text"] += " Extra-option closure: every other DHCPv6 option code (three payload shapes; those the codec rejects are skipped) in the client message or in a relay layer."
CHECKS["C14"]["text"] += " Extra-option closure on the DHCPv6 decision (5 types x 3 Server Identifier variants x every other option code)."
CHECKS["C19"]["text"] += " Chains through the real loader: every ordered pair (thorough: every triple starting with server_id) of the 15 built-in plugins in one section, both protocols, incl. plugins without a set-up function for that protocol; accepted chains are driven with the request battery through HandleMsg4/6."
# ---- additions of seed round 10
CHECKS["C01"]["text"] += " Seeds also cover option 57 {0,68,300,576,1500,65535} x client identifier {7,255} x relay agent information {-,100,255} and 'jumbo' requests of 65 507 / 65 535 / 32 768 octets filled with an echoed or a non-echoed option split over consecutive instances, on every branch of the destination cascade."
CHECKS["C02"]["text"] += " The age operation also advances the virtual clock the instrumented plugin reads (whatever it keeps in memory about 'when' sees the time pass)."
CHECKS["C08"]["text"] += " Hint lifetimes: the IAPrefix hints carry non-zero preferred/valid fields (valid only, preferred > valid, preferred < valid, all ones)."
CHECKS["C10"]["text"] += " Every static lookup is repeated with a client identifier (option 61) spelling another probe MAC and an opaque one: the mapping is keyed by the hardware address. A binding run good -> malformed -> good with the real watcher keeps every lookup under the 30 s operation watchdog."
CHECKS["C11"]["text"] += " Part B5: a client that already holds a lease requests its own / another / an outside / a malformed address (option 50) x flags x giaddr x ciaddr x option 54."
CHECKS["C13"]["text"] += " E2: the identical datagram twice through the real Serve loop under all schedules up to the preemption bound (retransmission): every copy runs through the whole chain."
CHECKS["C13"]["engine"] = "E3+E2"
CHECKS["C14"]["text"] += " Reply kinds: a plugin ahead of server_id makes the reply a NAK (in place or as a fresh object), a fresh ACK, or an OFFER with another siaddr: the reply that leaves carries this server's address in siaddr and option 54."
CHECKS["C15"]["text"] += " The shaping plugin also returns a freshly built reply object and leaves a misleading skeleton behind (3 x 3 x 2 x 3 x 3 x 2 rows)."
CHECKS["C16"]["text"] += " Scenarios S1d: the identical datagram twice (retransmission). A real-watcher run good -> malformed -> good with lookups under the operation watchdog reports a refresh/lookup deadlock."
CHECKS["C18"]["text"] += " Large documents: a 3000-item plugin list (100 KiB) and sections behind 70 / 140 KiB of comments, valid and invalid."
CHECKS["C20"]["text"] += " Two concurrent callers (every ordered pair of 5 representative calls, incl. the same call twice) under all schedules up to 2 preemptions at statement granularity: plugins/allocators is instrumented for this check."
CHECKS["C20"]["engine"] = "E3+E2"
CHECKS["C20"]["technique"] += "; plus stateless model checking of two concurrent calls under the cooperative scheduler"
# ---- additions of seed round 11
CHECKS["C02"]["text"] += " A second aging operation lets two days pass (own flag in the state key)."
for k in ("C04","C05","C06","C07"):
    CHECKS[k]["text"] += " Several allocators of different geometry alive in one process, created one after the other and used in turn."
CHECKS["C12"]["text"] += " E2 part: two datagrams in flight at once (relayed through different relay agents / direct with forced buffer reuse) through the real Serve loop under all schedules up to the preemption bound; every reply mirrors the relay layers of its own request."
CHECKS["C12"]["engine"] = "E3+E2"
CHECKS["C12"]["technique"] += "; plus stateless model checking of two datagrams in flight (scenarios S5, S5c)"
CHECKS["C17"]["text"] += " Irrelevant-request-option closure: a base request (full parameter request list) is repeated with every other option code (incl. the plugin's own, four payload shapes); the plugin's options in the reply must not change."
CHECKS["C19"]["text"] += " The state graphs of range and prefix (as in C02/C08: requests, restarts, aging) are explored breadth-first within a time budget for panics of an accepted configuration."
# ---- additions of seed round 12
CHECKS["C01"]["text"] += " E2: the DHCPv4 and DHCPv6 Serve loops run as two threads of one controlled execution (a few datagrams each, also garbage) under all schedules up to 1 (thorough 2) preemptions: no panic, no deadlock."
CHECKS["C07"]["text"] += " A burst of 40 000 hinted allocations in a row (hints descending from the top of 65 536-block pools) is honoured throughout."
CHECKS["C08"]["text"] += " Quota sweep: one client collects up to 40 prefixes bottom-up on a 64-block pool while another keeps asking for further prefixes. E2 scenario S1e (relayed solicit with two hinted IA_PDs + a direct solicit)."
CHECKS["C10"]["text"] += " Binding run large-then-small: a 24 MiB rewrite followed 60 ms later by a small one; once the small file's mapping is served it must stay."
CHECKS["C13"]["text"] += " A synthetic plugin registered under the name of each of the 15 built-in plugins is placed at every position of a 3-chain (names do not influence order)."
CHECKS["C14"]["text"] += " Server Identifier variants include the own identifier with one field changed (time octets of a DUID-LLT, hardware type, last address bit)."
CHECKS["C15"]["text"] += " The request's message type also ranges over INFORM, DECLINE, RELEASE, OFFER, ACK and 13: whatever is answered follows the same cascade."
CHECKS["C16"]["text"] += " Scenario S1e: a relayed solicit with two hinted IA_PDs and a direct solicit."
CHECKS["C18"]["text"] += " Single unquoted tokens that YAML types as floats, large integers or booleans are arguments exactly as written."
CHECKS["C20"]["text"] += " Held results: returned addresses are kept across 300 further calls and fed back as bases; they keep their value."
# ---- additions of seed round 13
CHECKS["C02"]["text"] += " Option 61 also spells ANOTHER client's hardware address (Ethernet form); the irrelevant-option closure uses seven payload shapes per code."
CHECKS["C06"]["text"] += " IPv4 frees are also written as 16-byte addresses with a 128-bit-wide mask."
CHECKS["C08"]["text"] += " Long run: one message repeated 4200 times on one handler between aging and the return of the first client."
CHECKS["C09"]["text"] += " Long run as in C08."
CHECKS["C12"]["text"] += " Scenario S5d: two short datagrams, then a long relayed one, through one Serve loop."
CHECKS["C17"]["text"] += " Other-plugins-option closure: the client also asks for another option x and an earlier plugin has already put x into the reply; the plugin still adds exactly its own options."
CHECKS["C19"]["text"] += " Any-request-option closure: every accepted configuration is also driven with every other option code in seven payload shapes (no panic, reply serialises); the range graphs run the same closure."
# ---- additions of seed round 14
CHECKS["C01"]["text"] += " Flood: 4300 junk datagrams of four kinds (empty, one byte, four bytes, half a request) through the real Serve loop, then a well-formed request, which must still be answered. A thread that blocks in an operation outside the modelled synchronisation (channel, socket) ends the run as a deadlock."
CHECKS["C10"]["text"] += " Many-entries files: 2..40 hosts plus a second line for one of them (last line wins) in both families."
CHECKS["C11"]["text"] += " E2 scenarios S6/S6b: a request whose reply is dropped on the send side (layer 2 unicast without interface information / interface gone) followed by two clients in flight at once."
CHECKS["C13"]["text"] += " Wide scenario: 1200 (thorough 6000) requests in flight at once all reach the chain and are answered as when handled one at a time."
CHECKS["C15"]["text"] += " Binding run: listeners built by the real listen4 from listen addresses (wildcard / own address of each interface, without and with %interface) must regard themselves as bound exactly to the interface the address names; the decision table is judged on them."
CHECKS["C16"]["text"] += " Scenarios S6/S6b (reply dropped at the send side, then two clients) and S7 (the lease time passes between a client's DISCOVER and its renewal, a new client follows). Timers made by time.AfterFunc in the instrumented code are threads of the controlled run that become enabled when the virtual clock reaches the deadline; other runtime timers are reported as a cap (exhaustive=false). Oracle added: an address promised to a client (OFFER/ACK with its lease time) is not given to another client before the promise runs out."
# ---- additions of seed round 15
for k in ("C04","C06"):
    CHECKS[k]["text"] += " E4: the E2 scenario bodies and 8 goroutines cycling allocate/free inside one bitmap word run free under the Go race detector (the cooperative scheduler treats the bitset library as atomic)."
CHECKS["C09"]["text"] += " Many-hints sweep: one IA_PD with 63/64/65/70 hints obtained in one message and renewed exactly."
CHECKS["C08"]["text"] += " Many-hints sweep as in C09."
CHECKS["C18"]["text"] += " Ports with leading zeros are decimal; 0x/0b/0o/underscore spellings are unparseable."
CHECKS["C19"]["text"] += " Search-domain labels with multi-byte characters around the 63-octet limit are among the configuration atoms."
# ---- additions of seed round 16
CHECKS["C11"]["text"] += " Malformed message types: option 53 of 0, 2 or 3 octets and repeated instances (12 shapes x position) under every chain are never answered."
CHECKS["C13"]["text"] += " Eighth handler behaviour: a nil response without stop (the chain goes on; a later handler may build a fresh response, which is then what is sent)."
# ---- additions of seed round 17
CHECKS["C01"]["text"] += " Environment deviation 'log level': all seeds under every chain also with the process-wide log level at debug and at trace."
CHECKS["C02"]["text"] += " Hardware addresses of every length 0..16 and number-like one-byte ones, with a restart after every reply, also in the quick tier."
CHECKS["C04"]["text"] += " Blocks returned wider than one allocation block are tracked: they overlap every neighbour they cover."
CHECKS["C15"]["text"] += " The reply's own giaddr and ciaddr as left by a plugin (as handed, zeroed, another value; same or fresh object): the cascade reads the request."
CHECKS["C16"]["text"] += " Scenarios S1g/S1h: Release / Confirm / Solicit with two hinted IA_PDs each and crossed hints on a 2-block pool."
CHECKS["C19"]["text"] += " Prefix pools of /120 and /128 with delegation lengths 129..256."
# ---- additions of seed round 18
for k in ("C04","C05","C06","C07"):
    CHECKS[k]["text"] += " Graph pool 2001:db8:0:140::/58 -> /60 (block length not a multiple of 8 bits, base with bits set in the partial octet)."
CHECKS["C13"]["text"] += " DHCPv6 requests also arrive inside one and two Relay-Forward layers: every handler still receives the original (relayed) request."
# ---- additions of seed round 19
for k in ("C04","C05"):
    CHECKS[k]["text"] += " 70 000 un-hinted allocations in a row on every pool larger than 2^17 blocks: each succeeds with a block not handed out before."
CHECKS["C09"]["text"] += " A client's hint-less renewal after exactly k = 65533..65538 IA_PDs of another client (a 16-bit count coming round)."
CHECKS["C15"]["text"] += " The UDP source of the request (giaddr itself from port 1067 or 67, another host from port 1067) is not part of the cascade."
CHECKS["C17"]["text"] += " MTU values written with leading zeros are decimal."
ALL = ["C%02d" % i for i in range(1, 21)]
NA_REASON = "check not built yet in this session (planned, see DESIGN.md section 5); will be claimed once its machinery exists"
m = {
 "version": 1,
 "setup_cmd": "./setup.sh",
 "hooks": {
  "guard": "verif",
  "enable": "go build -tags verif (the ./check script always builds /repo's working tree with -tags verif; scheduler-based checks additionally use a go build -overlay generated at check time by mc/cmd/instr)",
  "baseline_off_cmd": "cd /repo && GOFLAGS=-mod=mod GOPROXY=off GOSUMDB=off GOTOOLCHAIN=local go test -json -vet=off -count=1 -timeout 25m ./...",
  "source_commits": json.load(open("hook_commits.json")) if __import__("os").path.exists("hook_commits.json") else [],
  "add_only": True,
 },
 "engines": [
  {"name": "E1 explicit-state BFS over real handlers", "path": "mc/explore", "serves_properties": ["C02","C03","C04","C05","C06","C07","C08","C09","C10"], "kind_free_text": "explicit-state model checking where every transition is an execution of the real code on a fresh instance (replay of the shortest path + 1 op); state key = hook dump + observer ghost"},
  {"name": "E2 cooperative scheduler + preemption-bounded DFS", "path": "mc/sched + mc/verifsched + mc/cmd/instr", "serves_properties": ["C01","C02","C03","C04","C05","C06","C08","C11","C12","C13","C16","C20"], "kind_free_text": "stateless model checking of the implementation: sync replaced by a shim through go build -overlay, Yield() injected before every statement, all schedules up to a preemption bound"},
  {"name": "E3 bounded-exhaustive enumerator vs reference model", "path": "mc/checks/*", "serves_properties": ["C01","C10","C11","C12","C13","C14","C15","C17","C18","C19","C20"], "kind_free_text": "complete cross product of small per-dimension alphabets executed on the real code and compared with a reference written from the property text"},
 ],
 "checks": [],
 "not_applicable": [],
 "notes": "All checks: ./check <ID> <quick|thorough> [--replay file]; exit 0 held, 1 VIOLATION, 2 checker error. Known findings: known_findings.json.",
}
for pid in ALL:
    c = CHECKS.get(pid)
    if not c:
        m["not_applicable"].append({"property_id": pid, "reason": NA_REASON})
        continue
    m["checks"].append({
     "property_id": pid,
     "quick_cmd": "./check %s quick" % pid,
     "thorough_cmd": "./check %s thorough" % pid,
     "evidence_file": "/verif/evidence/%s.json" % pid,
     "replay_cmd_template": "./check %s quick --replay {path}" % pid,
     "engine": c["engine"],
     "level_claimed": {"category": c["level"], "text": c["text"], "design_ref": c["ref"]},
     "level_note": c["note"],
     "technique": c["technique"],
    })
json.dump(m, open("MANIFEST.json", "w"), indent=1)
try:
    import jsonschema
    jsonschema.validate(m, json.load(open("/root/.vp/MANIFEST.schema.json")))
    print("MANIFEST.json valid;", len(m["checks"]), "checks claimed")
except ImportError:
    print("MANIFEST.json written (jsonschema not available to validate)")
