// Package alloc: C04-C07 on the two bitmap allocators, engine E1 (explicit-state BFS to
// fixpoint over the real Allocate/Free) plus linear geometry sweeps.
package alloc

import (
	"encoding/binary"
	"encoding/json"
	"errors"
	"fmt"
	"math/big"
	"net"
	"os"
	"sort"
	"strings"
	"time"

	"github.com/coredhcp/coredhcp/plugins/allocators"
	"github.com/coredhcp/coredhcp/plugins/allocators/bitmap"

	"verifmc/ev"
	"verifmc/explore"
	"verifmc/reg"
	"verifmc/sched"
	"verifmc/verifsched"
)

func init() {
	for _, id := range []string{"C04", "C05", "C06", "C07"} {
		id := id
		reg.Register(&reg.Check{ID: id, Level: "model_checking",
			Run: func(r *ev.Run) { describe(r); reg.Isolated(r, id, 3*time.Hour) },
			Worker: func(a []string) int {
				r := ev.New(id, reg.Tier, "model_checking")
				if len(a) > 1 && a[0] == "sched" {
					runOneSched(r, a[1])
				} else if len(a) > 0 && a[0] == "race" {
					raceWorker(r)
				} else {
					run(r, id)
				}
				return reg.WorkerExit(r)
			},
			Replay: func(r *ev.Run, c json.RawMessage) { replayCase(r, id, c) }})
	}
}

// Pool describes one allocator configuration.
type Pool struct {
	V4    bool   `json:"v4,omitempty"`
	Start string `json:"start,omitempty"` // v4
	End   string `json:"end,omitempty"`   // v4
	CIDR  string `json:"cidr,omitempty"`  // v6 pool
	Page  int    `json:"page,omitempty"`  // v6 allocation length
}

func (p Pool) String() string {
	if p.V4 {
		return p.Start + "-" + p.End
	}
	return fmt.Sprintf("%s->/%d", p.CIDR, p.Page)
}

// Op is one operation of the alphabet. Hint/Free targets are given concretely so that a
// replay file is self-contained.
type Op struct {
	Kind string `json:"kind"`           // "alloc" | "free" | "tick" (an hour of virtual time passes; instrumented build only)
	IP   string `json:"ip,omitempty"`   // hex bytes of the IP (4 or 16), empty = nil
	Mask string `json:"mask,omitempty"` // hex bytes of the mask, empty = nil
	Note string `json:"note,omitempty"` // human description of the alphabet entry
}

type vbits interface{ VerifBits() []uint }

// geom is the reference geometry of a pool, computed with math/big from the config only.
type geom struct {
	pool  Pool
	base  *big.Int // first address (v4: as 32-bit; v6: 128-bit)
	n     int64    // number of blocks
	size  *big.Int // addresses per block
	page  int
	width int // 32 or 128
}

func newGeom(p Pool) geom {
	if p.V4 {
		s := new(big.Int).SetBytes(net.ParseIP(p.Start).To4())
		e := new(big.Int).SetBytes(net.ParseIP(p.End).To4())
		return geom{pool: p, base: s, n: new(big.Int).Sub(e, s).Int64() + 1, size: big.NewInt(1), page: 32, width: 32}
	}
	_, ipn, err := net.ParseCIDR(p.CIDR)
	if err != nil {
		panic(err)
	}
	pl, _ := ipn.Mask.Size()
	return geom{pool: p, base: new(big.Int).SetBytes(ipn.IP.To16()), n: int64(1) << uint(p.Page-pl),
		size: new(big.Int).Lsh(big.NewInt(1), uint(128-p.Page)), page: p.Page, width: 128}
}

// blockOf returns the block index containing address a (given in the pool's width) or -1.
func (g geom) blockOf(a *big.Int) int64 {
	d := new(big.Int).Sub(a, g.base)
	if d.Sign() < 0 {
		return -1
	}
	q := new(big.Int).Div(d, g.size)
	if !q.IsInt64() || q.Int64() >= g.n {
		return -1
	}
	return q.Int64()
}

func (g geom) blockBase(i int64) *big.Int {
	return new(big.Int).Add(g.base, new(big.Int).Mul(big.NewInt(i), g.size))
}

func (g geom) ipBytes(a *big.Int) net.IP {
	b := a.Bytes()
	out := make(net.IP, g.width/8)
	copy(out[len(out)-len(b):], b)
	return out
}

// Sys implements explore.Sys[Op].
type Sys struct {
	r       *ev.Run
	id      string // property in focus
	g       geom
	a       allocators.Allocator
	held    map[int64]bool // ghost: blocks handed out by successful Allocate, not yet successfully freed
	foreign bool           // alphabet includes frees of blocks not held (C06)
	rich    bool           // alphabet includes the full hint shape list (C05/C07)
	hist    []Op
	dead    bool // a panic escaped the allocator: the instance is not used any further
	broken  bool
	dirty   bool            // ghost: something was freed since time last passed
	wide    map[int64]int64 // ghost: outstanding blocks that were returned WIDER than an allocation block: first block -> number of blocks covered
}

func NewSys(r *ev.Run, id string, p Pool, foreign, rich bool) *Sys {
	s := &Sys{r: r, id: id, g: newGeom(p), held: map[int64]bool{}, wide: map[int64]int64{}, foreign: foreign, rich: rich}
	var err error
	if p.V4 {
		s.a, err = bitmap.NewIPv4Allocator(net.ParseIP(p.Start), net.ParseIP(p.End))
	} else {
		_, ipn, _ := net.ParseCIDR(p.CIDR)
		s.a, err = bitmap.NewBitmapAllocator(*ipn, p.Page)
	}
	if err != nil {
		panic(fmt.Sprintf("pool %v: %v", p, err))
	}
	return s
}

// Terminal reports that this state must not be explored further.
func (s *Sys) Terminal() bool { return s.dead || s.broken }

func (s *Sys) Close() {}

func hx(b []byte) string { return fmt.Sprintf("%x", b) }

func unhx(s string) []byte {
	if s == "" {
		return nil
	}
	var b []byte
	fmt.Sscanf(s, "%x", &b)
	return b
}

func (s *Sys) mkOp(kind string, ip net.IP, mask net.IPMask, note string) Op {
	return Op{Kind: kind, IP: hx(ip), Mask: hx(mask), Note: note}
}

// Ops builds the alphabet for the current state.
func (s *Sys) Ops() []Op {
	g := s.g
	if s.dead || s.broken {
		return nil
	}
	var ops []Op
	ops = append(ops, s.mkOp("alloc", nil, nil, "no hint"))
	if g.width == 32 {
		for i := int64(0); i < g.n && i < 6; i++ {
			ip := g.ipBytes(g.blockBase(i))
			ops = append(ops, s.mkOp("alloc", ip, nil, fmt.Sprintf("hint block %d (4-byte)", i)))
			if s.rich {
				ops = append(ops, s.mkOp("alloc", ip.To16(), net.CIDRMask(32, 32), fmt.Sprintf("hint block %d (16-byte form, /32 mask)", i)))
			}
		}
		below := new(big.Int).Sub(g.base, big.NewInt(1))
		above := new(big.Int).Add(g.base, big.NewInt(g.n))
		if below.Sign() >= 0 {
			ops = append(ops, s.mkOp("alloc", g.ipBytes(below), nil, "hint just below range"))
		}
		if above.BitLen() <= 32 {
			ops = append(ops, s.mkOp("alloc", g.ipBytes(above), nil, "hint just above range"))
		}
		if s.rich {
			ops = append(ops, s.mkOp("alloc", net.ParseIP("2001:db8::1"), nil, "IPv6 hint to IPv4 allocator"))
		}
	} else {
		full := func(l int) net.IPMask { return net.CIDRMask(l, 128) }
		for i := int64(0); i < g.n && i < 6; i++ {
			b := g.blockBase(i)
			ip := g.ipBytes(b)
			ops = append(ops, s.mkOp("alloc", ip, full(g.page), fmt.Sprintf("hint block %d /page", i)))
			if !s.rich && i < 2 && g.page >= 1 {
				// one hint shape with a length shorter than the allocation length also outside the
				// rich alphabet: what comes back must still be one allocation block
				ops = append(ops, s.mkOp("alloc", ip, full(g.page-1), fmt.Sprintf("hint block %d base with a /page-1 length", i)))
			}
			if s.rich {
				last := g.ipBytes(new(big.Int).Add(b, new(big.Int).Sub(g.size, big.NewInt(1))))
				ops = append(ops, s.mkOp("alloc", last, full(128), fmt.Sprintf("hint last address of block %d /128", i)))
				if g.page < 128 {
					ops = append(ops, s.mkOp("alloc", g.ipBytes(new(big.Int).Add(b, big.NewInt(1))), full(g.page+1), fmt.Sprintf("hint base+1 of block %d /page+1", i)))
				}
				if g.page >= 4 {
					// address inside the block, length shorter than the allocation length
					ops = append(ops, s.mkOp("alloc", last, full(g.page-4), fmt.Sprintf("hint inside block %d with a /page-4 length", i)))
					ops = append(ops, s.mkOp("alloc", ip, full(g.page-1), fmt.Sprintf("hint block %d base with a /page-1 length", i)))
				}
				ops = append(ops, s.mkOp("alloc", ip, nil, fmt.Sprintf("hint block %d nil mask", i)))
				ops = append(ops, s.mkOp("alloc", ip, net.CIDRMask(32, 32), fmt.Sprintf("hint block %d 32-bit-wide mask", i)))
			}
		}
		if s.rich {
			ops = append(ops, s.mkOp("alloc", net.IPv6zero, full(0), "::/0 hint"))
			if g.page > 0 {
				ops = append(ops, s.mkOp("alloc", net.IPv6zero, full(g.page-1), "length-only hint page-1"))
			}
			ops = append(ops, s.mkOp("alloc", net.IPv6zero, full(g.page), "length-only hint page"))
			if g.page < 128 {
				ops = append(ops, s.mkOp("alloc", net.IPv6zero, full(g.page+1), "length-only hint page+1"))
			}
			ops = append(ops, s.mkOp("alloc", net.IPv6zero, full(128), "length-only hint 128"))
			ops = append(ops, s.mkOp("alloc", net.ParseIP("10.1.2.3").To4(), net.CIDRMask(24, 32), "4-byte IPv4 hint"))
		}
		below := new(big.Int).Sub(g.base, g.size)
		above := new(big.Int).Add(g.base, new(big.Int).Mul(big.NewInt(g.n), g.size))
		if below.Sign() >= 0 {
			ops = append(ops, s.mkOp("alloc", g.ipBytes(below), full(g.page), "hint one block below pool"))
		}
		if above.BitLen() <= 128 {
			ops = append(ops, s.mkOp("alloc", g.ipBytes(above), full(g.page), "hint one block above pool"))
		}
	}
	// Frees
	mask := func(l int) net.IPMask { return net.CIDRMask(l, g.width) }
	for i := int64(0); i < g.n && i < 6; i++ {
		if !s.held[i] && !s.foreign {
			continue
		}
		st := "held"
		if !s.held[i] {
			st = "not held"
		}
		b := g.blockBase(i)
		ops = append(ops, s.mkOp("free", g.ipBytes(b), mask(g.page), fmt.Sprintf("free block %d (%s)", i, st)))
		if s.foreign && g.width == 32 {
			// the other legal spelling of an IPv4 /32: 16-byte (IPv4-mapped) address with a
			// 128-bit-wide mask (IPNet.String prints the same a.b.c.d/32 for both)
			ops = append(ops, s.mkOp("free", g.ipBytes(b).To16(), net.CIDRMask(128, 128), fmt.Sprintf("free block %d written as a 16-byte address with a /128 mask (%s)", i, st)))
		}
		if s.foreign && g.width == 128 && g.page < 128 {
			// sub-prefixes of the block
			up := g.ipBytes(new(big.Int).Add(b, new(big.Int).Rsh(g.size, 1)))
			ops = append(ops, s.mkOp("free", up, mask(g.page+1), fmt.Sprintf("free upper /page+1 half of block %d (%s)", i, st)))
			last := g.ipBytes(new(big.Int).Add(b, new(big.Int).Sub(g.size, big.NewInt(1))))
			ops = append(ops, s.mkOp("free", last, mask(128), fmt.Sprintf("free last /128 of block %d (%s)", i, st)))
		}
	}
	if s.foreign {
		// a prefix of the other address family whose low bits spell a block of this pool
		for i := int64(0); i < g.n && i < 3; i++ {
			b := g.ipBytes(g.blockBase(i))
			if g.width == 32 {
				v6 := append(net.ParseIP("2001:db8::")[:12:12], b...)
				ops = append(ops, s.mkOp("free", v6, net.CIDRMask(128, 128), fmt.Sprintf("free an IPv6 /128 whose low 32 bits are block %d", i)))
				ops = append(ops, s.mkOp("free", append(make(net.IP, 12, 16), b...), net.CIDRMask(128, 128), fmt.Sprintf("free ::a.b.c.d (IPv4-compatible IPv6) of block %d", i)))
			} else {
				ops = append(ops, s.mkOp("free", net.IP(b[12:16]), net.CIDRMask(32, 32), fmt.Sprintf("free the IPv4 address spelled by the low 32 bits of block %d", i)))
			}
		}
		for _, k := range []int64{1, 2, g.n, g.n + 1, 1 << 16} {
			d := new(big.Int).Mul(big.NewInt(k), g.size)
			below := new(big.Int).Sub(g.base, d)
			if below.Sign() >= 0 {
				ops = append(ops, s.mkOp("free", g.ipBytes(below), mask(g.page), fmt.Sprintf("free %d blocks below pool base", k)))
			}
			above := new(big.Int).Add(g.blockBase(g.n-1), d)
			if above.BitLen() <= g.width {
				ops = append(ops, s.mkOp("free", g.ipBytes(above), mask(g.page), fmt.Sprintf("free %d blocks above last block", k)))
			}
		}
	}
	// de-duplicate (small pools make several alphabet entries coincide)
	seen := map[string]bool{}
	out := ops[:0]
	for _, o := range ops {
		k := o.Kind + o.IP + "/" + o.Mask
		if !seen[k] {
			seen[k] = true
			out = append(out, o)
		}
	}
	if s.dirty && instrumented {
		out = append(out, Op{Kind: "tick", Note: "an hour passes"})
	}
	return out
}

func (s *Sys) bits() []uint { return s.a.(vbits).VerifBits() }

func (s *Sys) Key() string {
	if s.dead {
		return "dead-after-panic"
	}
	if s.broken {
		return "property-violated (terminal)"
	}
	h := make([]int64, 0, len(s.held))
	for i := range s.held {
		h = append(h, i)
	}
	sort.Slice(h, func(i, j int) bool { return h[i] < h[j] })
	w := ""
	if len(s.wide) > 0 {
		w = fmt.Sprintf(" wide=%v", s.wide) // (maps print sorted)
	}
	return fmt.Sprintf("bits=%v held=%v freed-since-tick=%v%s", s.bits(), h, s.dirty, w)
}

// instrumented: the binary was built with the overlay (the allocators then read the clock
// through the scheduler's virtual clock, which the tick operation advances).
var instrumented = os.Getenv("VERIF_SCHED") == "1"

type Case struct {
	Pool Pool `json:"pool"`
	Hist []Op `json:"history"`
}

func (s *Sys) violate(prop, sig, what string) {
	if prop != s.id {
		return // each property reports only its own clauses
	}
	// a state in which the property is already violated is not explored further: broken
	// states can have unboundedly many successors (e.g. a bitmap that grows past the pool)
	s.broken = true
	fam := "ipv6"
	if s.g.width == 32 {
		fam = "ipv4"
	}
	s.r.Violate(prop+"/"+fam+"/"+sig, fmt.Sprintf("pool %v: %s (history of %d ops)", s.g.pool, what, len(s.hist)), Case{s.g.pool, append([]Op{}, s.hist...)})
}

// hintInfo classifies a hint against the reference geometry.
func (s *Sys) hintBlock(ip net.IP) int64 {
	g := s.g
	if g.width == 32 {
		v4 := ip.To4()
		if v4 == nil {
			return -1
		}
		return g.blockOf(new(big.Int).SetBytes(v4))
	}
	if len(ip) != 16 {
		// 4-byte IPs: To16() maps them into ::ffff:a.b.c.d; geometry decides.
		ip = ip.To16()
		if ip == nil {
			return -1
		}
	}
	return g.blockOf(new(big.Int).SetBytes(ip))
}

func (s *Sys) Apply(op Op, live bool) (obs string) {
	if s.dead {
		return "dead"
	}
	s.hist = append(s.hist, op)
	g := s.g
	if op.Kind == "tick" {
		// an allocator is a pure data structure: the passing of time changes nothing. (If the
		// instrumented allocator reads the clock, it sees an hour more from now on.)
		verifsched.AdvanceGlobal(time.Hour)
		s.dirty = false
		if live {
			s.r.Eval("tick")
		}
		return "tick"
	}
	ipn := net.IPNet{IP: net.IP(unhx(op.IP)), Mask: net.IPMask(unhx(op.Mask))}
	defer func() {
		if e := recover(); e != nil {
			obs = fmt.Sprintf("PANIC %v", e)
			s.dead = true
			if live {
				for _, p := range []string{"C04", "C05", "C06", "C07"} {
					s.violate(p, "panic/"+op.Kind, fmt.Sprintf("%s(%s) panicked: %v", op.Kind, ipn.String(), e))
				}
			}
		}
		if live {
			s.r.Eval(op.Kind + ":" + classOf(obs))
			s.r.Sample(op.Kind+":"+classOf(obs), Case{g.pool, append([]Op{}, s.hist...)})
		}
	}()
	defer verifsched.HoldClock()()
	defer reg.OpBegin(fmt.Sprintf("pool %v: %s(%s) after %d ops", g.pool, op.Kind, ipn.String(), len(s.hist)-1))()
	before := fmt.Sprint(s.bits())
	nHeld := int64(len(s.held))
	switch op.Kind {
	case "alloc":
		got, err := s.a.Allocate(ipn)
		if err != nil {
			obs = "alloc-fail"
			if !errors.Is(err, allocators.ErrNoAddrAvail) {
				obs += "-othererr"
			}
			if live {
				if nHeld < g.n {
					s.violate("C05", "alloc-fails-with-free-blocks", fmt.Sprintf("Allocate(%s) failed (%v) with %d of %d blocks outstanding", ipn.String(), err, nHeld, g.n))
				} else if !errors.Is(err, allocators.ErrNoAddrAvail) {
					s.violate("C05", "exhaustion-wrong-error", fmt.Sprintf("Allocate on a full pool returned %v, not ErrNoAddrAvail", err))
				}
				if after := fmt.Sprint(s.bits()); after != before {
					s.violate("C05", "failed-alloc-changed-state", fmt.Sprintf("failed Allocate changed bitmap %s -> %s", before, after))
				}
			}
			return obs
		}
		// successful allocation: locate the block by reference geometry
		var addr *big.Int
		if g.width == 32 {
			if v4 := got.IP.To4(); v4 != nil && len(got.IP) == 4 {
				addr = new(big.Int).SetBytes(v4)
			}
		} else if len(got.IP) == 16 {
			addr = new(big.Int).SetBytes(got.IP)
		}
		blk := int64(-1)
		if addr != nil {
			blk = g.blockOf(addr)
		}
		ones, bitsW := got.Mask.Size()
		obs = fmt.Sprintf("alloc-ok blk=%d /%d", blk, ones)
		if live {
			if nHeld >= g.n {
				s.violate("C05", "alloc-succeeds-on-full-pool", fmt.Sprintf("Allocate(%s) returned %s with all %d blocks outstanding", ipn.String(), got.String(), g.n))
			}
			if blk < 0 {
				s.violate("C05", "outside-pool", fmt.Sprintf("Allocate(%s) returned %v which is not a block of the pool", ipn.String(), got))
			} else if g.blockBase(blk).Cmp(addr) != 0 {
				s.violate("C05", "unaligned", fmt.Sprintf("Allocate(%s) returned %v: base not aligned to /%d", ipn.String(), got, g.page))
			}
			wantLen := g.page
			if hl, hb := ipn.Mask.Size(); g.width == 128 && hb == 128 && hl > g.page {
				wantLen = hl
			}
			if ones != wantLen || bitsW != g.width {
				s.violate("C05", "wrong-length", fmt.Sprintf("Allocate(%s) returned %v: length %d/%d, want /%d", ipn.String(), got, ones, bitsW, wantLen))
			}
			if blk >= 0 && s.held[blk] {
				s.violate("C04", "double-allocation", fmt.Sprintf("Allocate(%s) returned block %d (%v) which is still outstanding", ipn.String(), blk, got))
				s.violate("C06", "double-allocation-after-free", fmt.Sprintf("Allocate(%s) returned block %d (%v) which somebody still holds", ipn.String(), blk, got))
			}
		}
		// C07: hint naming a free block is honoured exactly
		if hb := s.hintBlock(ipn.IP); hb >= 0 && !s.held[hb] && hintNames(g, ipn) {
			if blk != hb && live {
				s.violate("C07", "hint-not-honoured", fmt.Sprintf("Allocate(hint %s naming free block %d) returned block %d (%v)", ipn.String(), hb, blk, got))
			}
			obs += " hinted"
		}
		if blk >= 0 && live {
			// C04 on blocks returned wider than one allocation block: they cover their neighbours
			for w, n := range s.wide {
				if w != blk && blk >= w && blk < w+n {
					s.violate("C04", "overlaps-outstanding-wide-block", fmt.Sprintf("Allocate(%s) returned block %d (%v), which lies inside the outstanding block that was returned %d allocation blocks wide at block %d", ipn.String(), blk, got, n, w))
				}
			}
			if ones < g.page && bitsW == g.width && g.page-ones < 31 {
				n := int64(1) << uint(g.page-ones)
				first := blk - blk%n
				for h := range s.held {
					if h != blk && h >= first && h < first+n {
						s.violate("C04", "wide-block-overlaps-outstanding", fmt.Sprintf("Allocate(%s) returned %v, %d allocation blocks wide, which covers outstanding block %d", ipn.String(), got, n, h))
					}
				}
				s.wide[first] = n
			}
		}
		if blk >= 0 {
			s.held[blk] = true
		}
		return obs
	case "free":
		err := s.a.Free(ipn)
		// reference: the block containing the whole prefix, if any
		var tgt int64 = -1
		if ipb := ipn.IP; len(ipb)*8 == g.width || (g.width == 32 && ipb.To4() != nil) {
			if g.width == 32 {
				ipb = ipb.To4()
			}
			tgt = g.blockOf(new(big.Int).SetBytes(ipb.Mask(ipn.Mask)))
			if pl, _ := ipn.Mask.Size(); pl < g.page {
				tgt = -1 // a super-prefix does not lie inside one block
			}
		}
		want := tgt >= 0 && s.held[tgt]
		if err == nil {
			delete(s.wide, tgt)
			obs = fmt.Sprintf("free-ok tgt=%d", tgt)
		} else {
			obs = "free-err"
		}
		after := fmt.Sprint(s.bits())
		if live {
			switch {
			case err == nil && !want:
				s.violate("C06", "free-of-unheld-succeeds/"+freeClass(g, ipn, tgt), fmt.Sprintf("Free(%s) returned nil although no outstanding block contains it (bitmap %s -> %s)", ipn.String(), before, after))
			case err != nil && want:
				s.violate("C06", "free-of-held-fails", fmt.Sprintf("Free(%s) of outstanding block %d failed: %v", ipn.String(), tgt, err))
			case err != nil && after != before:
				s.violate("C06", "failed-free-changed-state", fmt.Sprintf("failed Free(%s) changed bitmap %s -> %s", ipn.String(), before, after))
			}
		}
		if err == nil {
			s.dirty = true
		}
		if err == nil && want {
			delete(s.held, tgt)
			if live {
				// exactly that block must have been released
				exp := map[uint]bool{}
				for b := range s.held {
					exp[uint(b)] = true
				}
				got := s.bits()
				ok := len(got) == len(exp)
				for _, b := range got {
					ok = ok && exp[b]
				}
				if !ok {
					s.violate("C06", "free-released-wrong-block", fmt.Sprintf("Free(%s) of block %d: bitmap %s -> %s", ipn.String(), tgt, before, after))
				}
			}
		}
		return obs
	}
	panic("bad op " + op.Kind)
}

// hintNames reports whether the hint is of a form that "names a block" (C07): an address
// inside the pool with either no IPv6 length information or a length >= the page.
func hintNames(g geom, h net.IPNet) bool {
	if g.width == 32 {
		return true
	}
	// any 16-byte address inside the pool names the block that contains it, whatever the
	// length that comes with it (the length only influences the size of the result)
	return len(h.IP) == 16
}

func freeClass(g geom, n net.IPNet, tgt int64) string {
	if tgt >= 0 {
		return "in-pool-block"
	}
	ipb := n.IP
	if g.width == 32 {
		ipb = ipb.To4()
	}
	if ipb == nil || len(ipb)*8 != g.width {
		return "bad-form"
	}
	a := new(big.Int).SetBytes(ipb)
	if a.Cmp(g.base) < 0 {
		return "below-pool"
	}
	if pl, _ := n.Mask.Size(); pl < g.page {
		return "super-prefix"
	}
	return "above-pool"
}

func classOf(obs string) string {
	f := strings.Fields(obs)
	if len(f) == 0 {
		return ""
	}
	c := f[0]
	if strings.Contains(obs, "hinted") {
		c += "-hinted"
	}
	return c
}

func graphPools(thorough bool) []Pool {
	ps := []Pool{
		{V4: true, Start: "10.0.0.1", End: "10.0.0.1"},
		{V4: true, Start: "10.0.0.1", End: "10.0.0.2"},
		{V4: true, Start: "10.0.0.254", End: "10.0.1.0"},
		{V4: true, Start: "255.255.255.254", End: "255.255.255.255"},
		{V4: true, Start: "0.0.0.0", End: "0.0.0.2"},
		{CIDR: "2001:db8:0:10::/64", Page: 64},
		{CIDR: "2001:db8:0:10::/63", Page: 64},
		{CIDR: "2001:db8:0:10::/62", Page: 64},
		{CIDR: "2001:db8:0:10::/63", Page: 65},
		{CIDR: "2001:db8:0:10::/64", Page: 66},
		{CIDR: "2001:db8::fff0/126", Page: 128},
		{CIDR: "2001:db8:0:140::/58", Page: 60}, // block length not a multiple of 8 bits, pool base with bits set in the partial octet
		{CIDR: "::/0", Page: 2},
		{CIDR: "ffff:ffff:ffff:ffff:ffff:ffff:ffff:fffc/126", Page: 128},
	}
	if thorough {
		ps = append(ps,
			Pool{V4: true, Start: "10.0.0.1", End: "10.0.0.4"},
			Pool{V4: true, Start: "255.255.255.252", End: "255.255.255.255"},
			Pool{CIDR: "2001:db8:0:10::/61", Page: 64},
			Pool{CIDR: "8000::/1", Page: 3},
			Pool{CIDR: "2001:db8:0:ffff:8000::/65", Page: 67},
		)
	}
	return ps
}

func describe(r *ev.Run) {
	r.Rule("E1: BFS to fixpoint over the real allocator for each pool; ops = Allocate(no hint | hint on every block in several forms | hints outside) + Free (outstanding blocks; for C06 also every non-outstanding block, sub-prefixes, and prefixes 1,2,N,N+1,2^16 blocks below/above the pool). State key = bitmap bits (hook) + ghost set of outstanding blocks. Reference geometry from math/big. Then sweeps: fill to exhaustion / free one / refill over pool geometries incl. word-boundary sizes; big fills (2^17 blocks, 70 000 addresses); a 2^21-block pool whose first 2^16 / 2^20 blocks are taken by hint; far hints on pools of 2^25..2^33 blocks; free-each-after-fill on 65..257 (1024) blocks; Free of every non-outstanding block of 257/1024-block pools; free-then-hint after 5000 (70 000) allocations. C04/C05/C06 additionally: 2-3 threads of 1-2 operations under all schedules up to the preemption bound (serial-order oracle + porcupine). Class = op kind + outcome.")
	r.Assume("pool orders <= 16 blocks in the graphs; the sweeps probe selected blocks of the large pools, not all of them; super-prefix frees and mismatched IP/mask widths are outside the stated domain of Free; the exploration runs in a worker process so that a fatal error of the allocator is reported, not suffered")
}

func run(r *ev.Run, id string) {
	foreign := id == "C06"
	rich := true // every property explores the full hint-shape alphabet
	for _, p := range graphPools(!r.Quick()) {
		p := p
		res := explore.Explore(r, explore.Config[Op]{
			Name:        p.String(),
			New:         func() explore.Sys[Op] { return NewSys(r, id, p, foreign, rich) },
			CheckMerges: true,
		})
		r.Add("graphs", 1)
		r.Add("merge_checks", res.MergeChecks)
		if res.Depth > 0 {
			r.Sample("graph", map[string]interface{}{"pool": p.String(), "states": res.States, "transitions": res.Transitions, "depth": res.Depth, "fixpoint": res.Fixpoint})
		}
	}
	sweeps(r, id)
	if id == "C04" || id == "C05" || id == "C06" {
		runSched(r)
	}
	if id == "C04" || id == "C06" {
		racePass(r)
	}
}

// bigFill: pools far beyond the graph bound (2^16+ blocks): fill to exhaustion without a
// hint, every block distinct and inside the pool, exactly N successes, then ErrNoAddrAvail;
// free blocks on both sides of the 2^16 mark and get exactly them back.
func bigFill(r *ev.Run, id string, p Pool) {
	g := newGeom(p)
	a := newAlloc(p)
	fam := "ipv6"
	if p.V4 {
		fam = "ipv4"
	}
	viol := func(prop, sig, what string) {
		if prop == id {
			r.Violate(prop+"/"+fam+"/"+sig, fmt.Sprintf("pool %v (%d blocks): %s", p, g.n, what), map[string]interface{}{"pool": p, "scenario": "fill without hint to exhaustion"})
		}
	}
	seen := make(map[int64]bool, g.n)
	blockOfNet := func(n net.IPNet) int64 {
		if p.V4 {
			if v4 := n.IP.To4(); v4 != nil {
				return g.blockOf(new(big.Int).SetBytes(v4))
			}
			return -1
		}
		return g.blockOf(new(big.Int).SetBytes(n.IP.To16()))
	}
	end := reg.OpBegin(fmt.Sprintf("pool %v: filling %d blocks", p, g.n))
	defer end()
	for i := int64(0); i < g.n; i++ {
		n, err := a.Allocate(net.IPNet{})
		if err != nil {
			viol("C05", "alloc-fails-with-free-blocks", fmt.Sprintf("allocation %d of %d failed (%v) with %d blocks outstanding", i+1, g.n, err, i))
			return
		}
		blk := blockOfNet(n)
		if blk < 0 {
			viol("C05", "outside-pool", fmt.Sprintf("allocation %d returned %v which is not a block of the pool", i+1, n))
			return
		}
		if seen[blk] {
			viol("C04", "double-allocation", fmt.Sprintf("allocation %d returned block %d which is still outstanding", i+1, blk))
			viol("C05", "alloc-succeeds-on-full-pool", fmt.Sprintf("allocation %d returned block %d a second time", i+1, blk))
			return
		}
		seen[blk] = true
	}
	if _, err := a.Allocate(net.IPNet{}); !errors.Is(err, allocators.ErrNoAddrAvail) {
		viol("C05", "exhaustion-wrong-error", fmt.Sprintf("allocation %d on the full pool returned %v", g.n+1, err))
	}
	for _, j := range []int64{0, 65535, 65536, g.n - 1} {
		if j >= g.n {
			continue
		}
		blk := net.IPNet{IP: g.ipBytes(g.blockBase(j)), Mask: net.CIDRMask(g.page, g.width)}
		if err := a.Free(blk); err != nil {
			viol("C06", "free-of-held-fails", fmt.Sprintf("Free of outstanding block %d failed: %v", j, err))
			continue
		}
		n, err := a.Allocate(net.IPNet{})
		if err != nil || blockOfNet(n) != j {
			viol("C05", "alloc-fails-with-free-blocks", fmt.Sprintf("after freeing block %d the next allocation returned %v, %v", j, n, err))
		}
	}
	r.EvalN("big-fill/"+fam, g.n)
	r.Add("big_pools", 1)
}

// hugeHintedFill: a pool of 2^21 blocks whose first k blocks are taken by hinted allocations
// (O(1) each), followed by un-hinted allocations: they must return blocks k, k+1, ... - never
// a block that is still outstanding - for k at the powers of two where lazily grown bitmaps
// would grow.
func hugeHintedFill(r *ev.Run, id string) {
	p := Pool{CIDR: "2001:db8::/43", Page: 64}
	g := newGeom(p)
	viol := func(prop, sig, what string) {
		if prop == id {
			r.Violate(prop+"/ipv6/"+sig, fmt.Sprintf("pool %v (%d blocks): %s", p, g.n, what), map[string]interface{}{"pool": p, "scenario": "first k blocks taken by hint, then un-hinted allocations"})
		}
	}
	for _, k := range []int64{1 << 16, 1 << 20} {
		a := newAlloc(p)
		end := reg.OpBegin(fmt.Sprintf("pool %v: hinted fill of %d blocks", p, k))
		ok := true
		for i := int64(0); i < k && ok; i++ {
			n, err := a.Allocate(net.IPNet{IP: g.ipBytes(g.blockBase(i)), Mask: net.CIDRMask(64, 128)})
			if err != nil || g.blockOf(new(big.Int).SetBytes(n.IP.To16())) != i {
				viol("C07", "hint-not-honoured", fmt.Sprintf("hinted allocation of free block %d returned %v, %v", i, n, err))
				ok = false
			}
		}
		for j := int64(0); j < 3 && ok; j++ {
			n, err := a.Allocate(net.IPNet{})
			blk := int64(-1)
			if err == nil {
				blk = g.blockOf(new(big.Int).SetBytes(n.IP.To16()))
			}
			switch {
			case err != nil:
				viol("C05", "alloc-fails-with-free-blocks", fmt.Sprintf("un-hinted allocation failed (%v) with %d of %d blocks outstanding", err, k+j, g.n))
				ok = false
			case blk >= 0 && blk < k+j:
				viol("C04", "double-allocation", fmt.Sprintf("with blocks 0..%d outstanding an un-hinted allocation returned block %d again", k+j-1, blk))
				viol("C05", "alloc-succeeds-on-full-pool", fmt.Sprintf("un-hinted allocation returned outstanding block %d", blk))
				ok = false
			case blk < 0:
				viol("C05", "outside-pool", fmt.Sprintf("un-hinted allocation returned %v", n))
				ok = false
			}
		}
		end()
		r.EvalN("huge-hinted-fill", k+3)
	}
}

// farHints: pools of 2^25..2^27 blocks (thorough 2^29) and IPv4 ranges of 2^25 addresses; hints
// naming free blocks far into the pool (last block, just past 2^24 + 2^16, past 2^25, ...), on a
// fresh allocator and after a few un-hinted allocations: each must be honoured exactly, the
// next un-hinted allocation must still be the first free block, and the far block can be
// freed exactly once.
func farHints(r *ev.Run, id string) {
	pools := []Pool{{CIDR: "2001:db8::/38", Page: 64}, {CIDR: "2001:db8::/29", Page: 56}, {CIDR: "2001:db8::/39", Page: 64}, {V4: true, Start: "10.0.0.0", End: "11.255.255.255"},
		{CIDR: "2001:db8::/31", Page: 64}} // 2^33 blocks: indices beyond 32 bits (1 GiB of untouched bitmap)
	if !r.Quick() {
		pools = append(pools, Pool{CIDR: "2001:db8::/35", Page: 64}, Pool{V4: true, Start: "10.0.0.0", End: "17.255.255.255"})
	}
	for _, p := range pools {
		g := newGeom(p)
		fam := "ipv6"
		if p.V4 {
			fam = "ipv4"
		}
		viol := func(prop, sig, what string, sc interface{}) {
			if prop == id {
				r.Violate(prop+"/"+fam+"/"+sig, fmt.Sprintf("pool %v (%d blocks): %s", p, g.n, what), map[string]interface{}{"pool": p, "scenario": sc})
			}
		}
		net4 := func(i int64) net.IPNet {
			ip := g.ipBytes(g.blockBase(i))
			if p.V4 {
				return net.IPNet{IP: ip, Mask: net.CIDRMask(32, 32)}
			}
			return net.IPNet{IP: ip, Mask: net.CIDRMask(p.Page, 128)}
		}
		var far []int64
		for _, c := range []int64{g.n - 1, 1<<24 + 1<<16, 1<<24 + 1<<16 + 1, 1<<24 - 1, 1 << 24, 1<<25 - 1, 1<<25 + 12345, 1<<26 + 7, g.n / 2, 1 << 16, 1<<16 + 1, 1 << 20, 1<<32 - 1, 1 << 32, 1<<32 + 5, 1<<31 + 3} {
			if c >= 0 && c < g.n {
				far = append(far, c)
			}
		}
		for _, pre := range []int{0, 3} {
			for _, f := range far {
				sc := fmt.Sprintf("%d un-hinted allocations, then a hint naming free block %d", pre, f)
				end := reg.OpBegin(fmt.Sprintf("pool %v: %s", p, sc))
				a := newAlloc(p)
				ok := true
				for i := 0; i < pre; i++ {
					if _, err := a.Allocate(net.IPNet{}); err != nil {
						ok = false
					}
				}
				if f < int64(pre) {
					end()
					continue
				}
				got, err := a.Allocate(net4(f))
				blk := int64(-1)
				if err == nil {
					blk = g.blockOf(new(big.Int).SetBytes(got.IP))
				}
				if ok && err == nil && blk >= 0 {
					// whatever block was returned is outstanding now: naming it again must not
					// return it a second time
					if n4, err4 := a.Allocate(net4(blk)); err4 == nil && g.blockOf(new(big.Int).SetBytes(n4.IP)) == blk {
						viol("C04", "double-allocation/far", fmt.Sprintf("%s: block %d was returned, and returned again when named by the next hint", sc, blk), sc)
					} else if err4 == nil {
						a.Free(n4)
					}
				}
				if ok && (err != nil || blk != f) {
					viol("C07", "hint-not-honoured/far", fmt.Sprintf("%s: returned %v (block %d), %v", sc, got, blk, err), sc)
					if err != nil || blk < 0 {
						viol("C05", "far-hint-fails-or-leaves-pool", fmt.Sprintf("%s: returned %v (block %d), %v although the pool is almost empty", sc, got, blk, err), sc)
					}
					end()
					r.Eval("far-hint/wrong")
					continue
				}
				// the next un-hinted allocation is the first free block, not the far one again
				n2, err2 := a.Allocate(net.IPNet{})
				b2 := int64(-1)
				if err2 == nil {
					b2 = g.blockOf(new(big.Int).SetBytes(n2.IP))
				}
				if err2 != nil || b2 == f || b2 < 0 {
					viol("C04", "double-allocation/far", fmt.Sprintf("%s, then an un-hinted allocation returned %v (block %d), %v", sc, n2, b2, err2), sc)
				}
				if err2 != nil || b2 < 0 {
					viol("C05", "alloc-after-far-hint", fmt.Sprintf("%s, then an un-hinted allocation returned %v (block %d), %v although the pool is almost empty", sc, n2, b2, err2), sc)
				}
				// the same hint again must not return the same block
				if n3, err3 := a.Allocate(net4(f)); err3 == nil && g.blockOf(new(big.Int).SetBytes(n3.IP)) == f {
					viol("C04", "double-allocation/far", fmt.Sprintf("%s: the outstanding block was returned again for the same hint", sc), sc)
				}
				e1 := a.Free(net4(f))
				e2 := a.Free(net4(f))
				if e1 != nil || e2 == nil {
					viol("C06", "free-far-block", fmt.Sprintf("%s: first Free returned %v, second %v", sc, e1, e2), sc)
				}
				end()
				r.Eval("far-hint/honoured")
			}
		}
		if g.n > 1<<17 {
			// 70 000 un-hinted allocations in a row on a pool far larger than that: every one
			// succeeds and returns a block not handed out before
			sc := "70000 un-hinted allocations in a row"
			end := reg.OpBegin(fmt.Sprintf("pool %v: %s", p, sc))
			a := newAlloc(p)
			seen := make(map[int64]bool, 70000)
			for i := 0; i < 70000; i++ {
				n, err := a.Allocate(net.IPNet{})
				if err != nil {
					viol("C05", "alloc-fails-with-free-blocks/long-run", fmt.Sprintf("%s: allocation %d failed (%v) with %d of %d blocks outstanding", sc, i+1, err, i, g.n), sc)
					break
				}
				b := g.blockOf(new(big.Int).SetBytes(n.IP))
				if b < 0 {
					viol("C05", "outside-pool/long-run", fmt.Sprintf("%s: allocation %d returned %v", sc, i+1, n), sc)
					break
				}
				if seen[b] {
					viol("C04", "double-allocation/long-run", fmt.Sprintf("%s: allocation %d returned block %d a second time", sc, i+1, b), sc)
					break
				}
				seen[b] = true
			}
			end()
			r.Eval("long-run-of-allocations")
		}
	}
}

// freeEachAfterFill: pools of 65..257 blocks (several bitmap words) filled to exhaustion; then,
// for every block k (and for pairs k1 < k2): Free(k) succeeds, the next un-hinted Allocate
// succeeds and returns exactly the free block, and the pool is full again. Also the reverse
// direction: blocks freed in descending order come back lowest first.
func freeEachAfterFill(r *ev.Run, id string) {
	pools := []Pool{{V4: true, Start: "10.0.0.0", End: "10.0.0.64"}, {V4: true, Start: "10.0.0.0", End: "10.0.0.129"}, {V4: true, Start: "10.0.0.0", End: "10.0.1.0"},
		{CIDR: "2001:db8::/57", Page: 64}, {CIDR: "2001:db8::/56", Page: 64}}
	if !r.Quick() {
		pools = append(pools, Pool{V4: true, Start: "10.0.0.0", End: "10.0.3.255"}, Pool{CIDR: "2001:db8::/54", Page: 64})
	}
	for _, p := range pools {
		g := newGeom(p)
		fam := "ipv6"
		if p.V4 {
			fam = "ipv4"
		}
		a := newAlloc(p)
		blk := func(i int64) net.IPNet {
			return net.IPNet{IP: g.ipBytes(g.blockBase(i)), Mask: net.CIDRMask(g.page, g.width)}
		}
		blockOfNet := func(n net.IPNet) int64 {
			if p.V4 {
				if v4 := n.IP.To4(); v4 != nil {
					return g.blockOf(new(big.Int).SetBytes(v4))
				}
				return -1
			}
			return g.blockOf(new(big.Int).SetBytes(n.IP.To16()))
		}
		broken := false
		viol := func(prop, sig, what string, sc interface{}) {
			broken = true
			if prop == id {
				r.Violate(prop+"/"+fam+"/"+sig, fmt.Sprintf("pool %v (%d blocks): %s", p, g.n, what), map[string]interface{}{"pool": p, "scenario": sc})
			}
		}
		end := reg.OpBegin(fmt.Sprintf("pool %v: free-each-after-fill", p))
		for i := int64(0); i < g.n; i++ {
			if _, err := a.Allocate(net.IPNet{}); err != nil {
				viol("C05", "alloc-fails-with-free-blocks", fmt.Sprintf("allocation %d of %d failed: %v", i+1, g.n, err), "fill")
			}
		}
		pairs := [][2]int64{}
		for k := int64(0); k < g.n; k++ {
			pairs = append(pairs, [2]int64{k, -1})
		}
		for _, k1 := range []int64{0, 1, 63, 64, 65, 127, 128} {
			for k2 := k1 + 1; k2 < g.n; k2 += 7 {
				if k1 < g.n {
					pairs = append(pairs, [2]int64{k2, k1}) // freed in descending order
				}
			}
		}
		for _, pr := range pairs {
			if broken {
				break
			}
			sc := fmt.Sprintf("pool filled; Free(block %d)", pr[0])
			want := []int64{pr[0]}
			if pr[1] >= 0 {
				sc += fmt.Sprintf(", Free(block %d)", pr[1])
				want = []int64{pr[1], pr[0]} // lowest first
			}
			for _, k := range []int64{pr[0], pr[1]} {
				if k < 0 {
					continue
				}
				if err := a.Free(blk(k)); err != nil {
					viol("C06", "free-of-held-fails", fmt.Sprintf("%s: Free of outstanding block %d failed: %v", sc, k, err), sc)
				}
			}
			got := map[int64]bool{}
			for i := range want {
				n, err := a.Allocate(net.IPNet{})
				switch {
				case err != nil:
					viol("C05", "alloc-fails-with-free-blocks", fmt.Sprintf("%s: un-hinted allocation %d failed (%v) although %d blocks are free", sc, i+1, err, len(want)-i), sc)
				case blockOfNet(n) != pr[0] && blockOfNet(n) != pr[1]:
					viol("C04", "double-allocation", fmt.Sprintf("%s: un-hinted allocation returned %v (block %d), which is outstanding", sc, n, blockOfNet(n)), sc)
					viol("C05", "alloc-succeeds-on-full-pool", fmt.Sprintf("%s: un-hinted allocation returned outstanding block %d", sc, blockOfNet(n)), sc)
				default:
					got[blockOfNet(n)] = true
				}
			}
			if !broken && len(got) != len(want) {
				viol("C04", "double-allocation", fmt.Sprintf("%s: the two allocations returned the same block", sc), sc)
			}
			if _, err := a.Allocate(net.IPNet{}); !broken && !errors.Is(err, allocators.ErrNoAddrAvail) {
				viol("C05", "exhaustion-wrong-error", fmt.Sprintf("%s, re-allocated: one more allocation on the full pool returned %v", sc, err), sc)
			}
		}
		end()
		r.EvalN("free-each-after-fill/"+fam, int64(len(pairs)))
	}
}

// freeNeverAllocated: on a fresh allocator (and after allocating every other block) a Free of a
// block that is not outstanding fails and changes nothing, for EVERY block of pools of 257 and
// 1024 blocks (block numbers with every low-byte value, word and /24 boundaries).
func freeNeverAllocated(r *ev.Run, id string) {
	for _, p := range []Pool{{V4: true, Start: "10.20.0.0", End: "10.20.1.0"}, {V4: true, Start: "10.20.0.0", End: "10.20.3.255"}, {V4: true, Start: "10.20.0.7", End: "10.20.4.6"}, {CIDR: "2001:db8::/54", Page: 64}} {
		g := newGeom(p)
		fam := "ipv6"
		if p.V4 {
			fam = "ipv4"
		}
		blk := func(i int64) net.IPNet {
			return net.IPNet{IP: g.ipBytes(g.blockBase(i)), Mask: net.CIDRMask(g.page, g.width)}
		}
		for _, pre := range []string{"fresh allocator", "every even block allocated by hint"} {
			a := newAlloc(p)
			held := map[int64]bool{}
			if pre != "fresh allocator" {
				for i := int64(0); i < g.n; i += 2 {
					if _, err := a.Allocate(blk(i)); err == nil {
						held[i] = true
					}
				}
			}
			end := reg.OpBegin(fmt.Sprintf("pool %v: Free of every block that is not outstanding (%s)", p, pre))
			bad := 0
			for i := int64(0); i < g.n && bad < 3; i++ {
				if held[i] {
					continue
				}
				if err := a.Free(blk(i)); err == nil {
					bad++
					if id == "C06" {
						r.Violate("C06/"+fam+"/free-of-unheld-succeeds/never-allocated", fmt.Sprintf("pool %v (%d blocks), %s: Free(%v) of block %d, which is not outstanding, returned nil", p, g.n, pre, blk(i), i), map[string]interface{}{"pool": p, "scenario": pre, "block": i})
					}
				}
			}
			end()
			r.EvalN("free-never-allocated/"+fam, g.n)
		}
	}
}

// freeThenHint: long histories. After n un-hinted allocations (n = 5000 on 8192-block pools;
// thorough: 70 000 on 2^17 blocks) single blocks all over the allocated part are freed and
// named by the next hint: each must be honoured exactly; an un-hinted allocation after a free
// must return that (only) free block below the high-water mark.
func freeThenHint(r *ev.Run, id string) {
	type cfg struct {
		p Pool
		n int64
	}
	cfgs := []cfg{{Pool{CIDR: "2001:db8::/51", Page: 64}, 5000}, {Pool{V4: true, Start: "10.0.0.0", End: "10.0.31.255"}, 5000}}
	if !r.Quick() {
		cfgs = append(cfgs, cfg{Pool{CIDR: "2001:db8::/47", Page: 64}, 70000}, cfg{Pool{V4: true, Start: "10.0.0.0", End: "10.1.255.255"}, 70000})
	}
	for _, c := range cfgs {
		p := c.p
		g := newGeom(p)
		fam := "ipv6"
		if p.V4 {
			fam = "ipv4"
		}
		blk := func(i int64) net.IPNet {
			return net.IPNet{IP: g.ipBytes(g.blockBase(i)), Mask: net.CIDRMask(g.page, g.width)}
		}
		blockOfNet := func(n net.IPNet) int64 {
			if p.V4 {
				if v4 := n.IP.To4(); v4 != nil {
					return g.blockOf(new(big.Int).SetBytes(v4))
				}
				return -1
			}
			return g.blockOf(new(big.Int).SetBytes(n.IP.To16()))
		}
		a := newAlloc(p)
		end := reg.OpBegin(fmt.Sprintf("pool %v: %d allocations, then free+hint", p, c.n))
		ok := true
		for i := int64(0); i < c.n && ok; i++ {
			if _, err := a.Allocate(net.IPNet{}); err != nil {
				ok = false
			}
		}
		ks := []int64{0, 1, 63, 64, 65, 100, 127, 128, 1000, 4032, 4095, 4096, 4097, c.n / 2, c.n - 65, c.n - 1}
		for _, k := range ks {
			if !ok || k < 0 || k >= c.n {
				continue
			}
			sc := fmt.Sprintf("%d un-hinted allocations, Free(block %d), then", c.n, k)
			if err := a.Free(blk(k)); err != nil {
				if id == "C06" {
					r.Violate("C06/"+fam+"/free-of-held-fails/long-history", fmt.Sprintf("pool %v: %s: Free failed: %v", p, sc, err), map[string]interface{}{"pool": p, "scenario": sc})
				}
				continue
			}
			n, err := a.Allocate(blk(k))
			if got := blockOfNet(n); err != nil || got != k {
				if id == "C07" {
					r.Violate("C07/"+fam+"/hint-not-honoured/long-history", fmt.Sprintf("pool %v (%d blocks): %s a hint naming it returned %v (block %d), %v", p, g.n, sc, n, got, err), map[string]interface{}{"pool": p, "scenario": sc})
				}
				ok = false
				continue
			}
			// and the same through the un-hinted path
			a.Free(blk(k))
			n2, err2 := a.Allocate(net.IPNet{})
			if got := blockOfNet(n2); err2 != nil || got != k {
				if id == "C05" && (err2 != nil || got < 0) {
					r.Violate("C05/"+fam+"/alloc-fails-with-free-blocks/long-history", fmt.Sprintf("pool %v: %s an un-hinted allocation returned %v, %v", p, sc, n2, err2), map[string]interface{}{"pool": p, "scenario": sc})
				}
				if id == "C04" && err2 == nil && got >= 0 && got < c.n {
					r.Violate("C04/"+fam+"/double-allocation/long-history", fmt.Sprintf("pool %v: %s an un-hinted allocation returned block %d, which is outstanding", p, sc, got), map[string]interface{}{"pool": p, "scenario": sc})
				}
				if err2 == nil && got >= c.n {
					// took a block above the high-water mark although a lower one is free: allowed,
					// but then block k is still free; take it so that the state stays as assumed
					a.Allocate(blk(k))
				}
			}
		}
		end()
		r.EvalN("free-then-hint/"+fam, c.n)
	}
}

// specialRanges: what a pool's addresses "mean" (loopback, multicast, link-local, reserved,
// documentation ...) is not the allocator's business: a 4-address range across every /8
// boundary of IPv4, and a 4-block pool at the start of every /8 of IPv6, hold exactly 4.
func specialRanges(r *ev.Run, id string) {
	var pools []Pool
	for o := 0; o < 255; o++ {
		pools = append(pools, Pool{V4: true, Start: fmt.Sprintf("%d.255.255.254", o), End: fmt.Sprintf("%d.0.0.1", o+1)})
	}
	pools = append(pools, Pool{V4: true, Start: "127.0.0.1", End: "127.0.0.3"}, Pool{V4: true, Start: "169.254.0.1", End: "169.254.0.4"}, Pool{V4: true, Start: "239.1.1.1", End: "239.1.1.2"}, Pool{V4: true, Start: "0.0.0.0", End: "0.0.0.3"})
	for o := 0; o < 256; o++ {
		pools = append(pools, Pool{CIDR: fmt.Sprintf("%02x00::/62", o), Page: 64})
	}
	pools = append(pools, Pool{CIDR: "fe80::/62", Page: 64}, Pool{CIDR: "::ffff:0:0/96", Page: 98}, Pool{CIDR: "2002::/46", Page: 48}, Pool{CIDR: "ff02::/14", Page: 16})
	for _, p := range pools {
		g := newGeom(p)
		fam := "ipv6"
		if p.V4 {
			fam = "ipv4"
		}
		a := newAlloc(p)
		seen := map[string]bool{}
		viol := func(prop, sig, what string) {
			if prop == id {
				r.Violate(prop+"/"+fam+"/"+sig, fmt.Sprintf("pool %v (%d blocks): %s", p, g.n, what), map[string]interface{}{"pool": p, "scenario": "fill without hint, then one hinted allocation per block on a fresh allocator"})
			}
		}
		for i := int64(0); i < g.n; i++ {
			n, err := a.Allocate(net.IPNet{})
			if err != nil {
				viol("C05", "alloc-fails-with-free-blocks/special-range", fmt.Sprintf("allocation %d of %d failed: %v", i+1, g.n, err))
				break
			}
			if seen[n.String()] {
				viol("C04", "double-allocation/special-range", fmt.Sprintf("allocation %d returned %v again", i+1, n))
			}
			seen[n.String()] = true
		}
		b := newAlloc(p)
		for i := int64(0); i < g.n; i++ {
			h := net.IPNet{IP: g.ipBytes(g.blockBase(i)), Mask: net.CIDRMask(g.page, g.width)}
			n, err := b.Allocate(h)
			if err != nil || !n.IP.Equal(h.IP) {
				viol("C07", "hint-not-honoured/special-range", fmt.Sprintf("hint naming free block %d (%v) returned %v, %v", i, h.IP, n, err))
				if err != nil {
					viol("C05", "alloc-fails-with-free-blocks/special-range", fmt.Sprintf("hinted allocation of free block %d (%v) failed: %v", i, h.IP, err))
				}
				break
			}
		}
		r.Eval("special-range/" + fam)
	}
}

// twoPools: several allocators alive in one process (a configuration may list the prefix or
// range plugin more than once): pools of different geometry, created one after the other and
// used in turn, each judged by its own geometry.
func twoPools(r *ev.Run, id string) {
	sets := [][]Pool{
		{{CIDR: "2001:db8:1::/52", Page: 56}, {CIDR: "2001:db8:2::/60", Page: 64}},
		{{CIDR: "2001:db8:2::/62", Page: 64}, {CIDR: "2001:db8:1::/54", Page: 56}, {CIDR: "2001:db8:3::/126", Page: 128}},
		{{V4: true, Start: "10.0.0.1", End: "10.0.0.4"}, {V4: true, Start: "192.168.7.250", End: "192.168.8.1"}},
		{{V4: true, Start: "10.0.0.1", End: "10.0.0.3"}, {CIDR: "2001:db8:4::/62", Page: 64}},
	}
	for _, set := range sets {
		type live struct {
			p    Pool
			g    geom
			a    allocators.Allocator
			held map[int64]bool
		}
		var ls []*live
		for _, p := range set {
			ls = append(ls, &live{p, newGeom(p), newAlloc(p), map[int64]bool{}})
		}
		for round := int64(0); round < 20; round++ {
			for _, l := range ls {
				g := l.g
				fam := "ipv6"
				if l.p.V4 {
					fam = "ipv4"
				}
				viol := func(prop, sig, what string) {
					if prop == id {
						r.Violate(prop+"/"+fam+"/"+sig+"/several-pools", fmt.Sprintf("pool %v (%d blocks), while pools %v are alive in the same process: %s", l.p, g.n, set, what), map[string]interface{}{"pool": l.p, "scenario": fmt.Sprintf("pools %v created in this order, used in turn, round %d", set, round)})
					}
				}
				hint := net.IPNet{}
				want := int64(-1)
				if round%3 == 1 {
					// hint the highest free block
					for b := g.n - 1; b >= 0; b-- {
						if !l.held[b] {
							want = b
							hint = net.IPNet{IP: g.ipBytes(g.blockBase(b)), Mask: net.CIDRMask(g.page, g.width)}
							break
						}
					}
				}
				n, err := l.a.Allocate(hint)
				full := int64(len(l.held)) >= g.n
				if err != nil {
					if !full {
						viol("C05", "alloc-fails-with-free-blocks", fmt.Sprintf("allocation failed (%v) with %d of %d blocks outstanding", err, len(l.held), g.n))
					}
					continue
				}
				ipb := n.IP
				if l.p.V4 {
					ipb = n.IP.To4()
				}
				blk := int64(-1)
				if ipb != nil && len(ipb)*8 == g.width {
					blk = g.blockOf(new(big.Int).SetBytes(ipb))
				}
				ones, bits := n.Mask.Size()
				switch {
				case blk < 0:
					viol("C05", "outside-pool", fmt.Sprintf("allocation returned %v, not a block of this pool", n))
				case ones != g.page || bits != g.width || new(big.Int).SetBytes(ipb).Cmp(g.blockBase(blk)) != 0:
					viol("C05", "wrong-size-or-alignment", fmt.Sprintf("allocation returned %v; blocks of this pool are /%d", n, g.page))
				case full:
					viol("C05", "alloc-succeeds-on-full-pool", fmt.Sprintf("allocation returned %v with all %d blocks outstanding", n, g.n))
				}
				if blk >= 0 {
					if l.held[blk] {
						viol("C04", "double-allocation", fmt.Sprintf("allocation returned block %d which is still outstanding", blk))
					}
					if want >= 0 && blk != want {
						viol("C07", "hint-not-honoured", fmt.Sprintf("hint naming free block %d returned block %d", want, blk))
					}
					l.held[blk] = true
				}
				if round%5 == 4 && blk >= 0 {
					if err := l.a.Free(n); err != nil {
						viol("C06", "free-of-held-fails", fmt.Sprintf("Free(%v) of the block just allocated failed: %v", n, err))
					} else {
						delete(l.held, blk)
					}
				}
			}
		}
		r.Eval("several-pools")
	}
}

// hintBurst: 40 000 hinted allocations in a row (the returning clients after a restart), hints
// descending from the top of a 65 536-block pool / 65 536-address range so that "first free"
// never coincides with the hint: every one is honoured.
func hintBurst(r *ev.Run, id string) {
	for _, p := range []Pool{{CIDR: "2001:db8::/48", Page: 64}, {V4: true, Start: "10.0.0.0", End: "10.0.255.255"}} {
		g := newGeom(p)
		fam := "ipv6"
		if p.V4 {
			fam = "ipv4"
		}
		a := newAlloc(p)
		end := reg.OpBegin(fmt.Sprintf("pool %v: burst of hinted allocations", p))
		for i := int64(0); i < 40000; i++ {
			want := g.n - 1 - i
			h := net.IPNet{IP: g.ipBytes(g.blockBase(want)), Mask: net.CIDRMask(g.page, g.width)}
			n, err := a.Allocate(h)
			if err != nil || !n.IP.Equal(h.IP) {
				if id == "C07" {
					r.Violate("C07/"+fam+"/hint-not-honoured/burst", fmt.Sprintf("pool %v: hinted allocation number %d of a burst names free block %d (%v) and returned %v, %v", p, i+1, want, h.IP, n, err), map[string]interface{}{"pool": p, "scenario": "40000 hinted allocations in a row, descending from the last block"})
				}
				break
			}
		}
		end()
		r.EvalN("hint-burst/"+fam, 40000)
	}
}

// sweeps: linear fills of many pool geometries (C05), hint family at word boundaries (C07).
func sweeps(r *ev.Run, id string) {
	hintBurst(r, id)
	twoPools(r, id)
	specialRanges(r, id)
	freeThenHint(r, id)
	freeNeverAllocated(r, id)
	hugeHintedFill(r, id)
	farHints(r, id)
	freeEachAfterFill(r, id)
	bigFill(r, id, Pool{CIDR: "2001:db8::/47", Page: 64})                 // 2^17 blocks
	bigFill(r, id, Pool{V4: true, Start: "10.0.0.0", End: "10.1.17.111"}) // 70 000 addresses
	thorough := !r.Quick()
	var pools []Pool
	sizes := []int{1, 2, 3, 63, 64, 65}
	if thorough {
		sizes = append(sizes, 127, 128, 129, 256, 257)
	}
	for _, st := range []string{"10.0.0.0", "10.0.0.250", "255.255.255.250"} {
		for _, n := range sizes {
			s := binary.BigEndian.Uint32(net.ParseIP(st).To4())
			e := uint64(s) + uint64(n) - 1
			if e > 0xffffffff {
				e = 0xffffffff
			}
			eb := make(net.IP, 4)
			binary.BigEndian.PutUint32(eb, uint32(e))
			pools = append(pools, Pool{V4: true, Start: st, End: eb.String()})
		}
	}
	pls := []int{0, 1, 7, 8, 9, 47, 48, 56, 60, 62, 63, 64, 65, 66, 100, 120, 126, 127}
	ks := []int{1, 2, 3, 6}
	if thorough {
		ks = append(ks, 7, 8)
	}
	bases := []string{"::", "2001:db8::", "8000::", "ffff:ffff:ffff:ffff:ffff:ffff:ffff:ffff", "0:0:0:ffff:ffff:ffff::"}
	for _, pl := range pls {
		for _, k := range ks {
			if pl+k > 128 {
				continue
			}
			for _, b := range bases {
				ip := net.ParseIP(b).Mask(net.CIDRMask(pl, 128))
				pools = append(pools, Pool{CIDR: fmt.Sprintf("%s/%d", ip, pl), Page: pl + k})
			}
		}
	}
	seen := map[string]bool{}
	for _, p := range pools {
		if seen[p.String()] {
			continue
		}
		seen[p.String()] = true
		s := NewSys(r, id, p, false, false)
		g := s.g
		none := s.mkOp("alloc", nil, nil, "no hint")
		// fill to exhaustion, each step oracle-checked by Apply
		for i := int64(0); i < g.n; i++ {
			s.Apply(none, true)
		}
		s.Apply(none, true) // must fail, ErrNoAddrAvail, unchanged
		// free first / middle / last, then exactly one more allocation succeeds
		for _, j := range []int64{0, g.n / 2, g.n - 1} {
			if !s.held[j] {
				continue
			}
			s.Apply(s.mkOp("free", g.ipBytes(g.blockBase(j)), net.CIDRMask(g.page, g.width), fmt.Sprintf("free block %d", j)), true)
			s.Apply(none, true)
			s.Apply(none, true)
		}
		r.Add("sweep_pools", 1)
		// C07 family: everything held except j, hint j -> j (word boundaries)
		if g.n >= 63 || thorough {
			for j := int64(0); j < g.n; j++ {
				if j > 2 && j < g.n-3 && (j%64 > 1 && j%64 < 62) {
					continue // keep first/last blocks and both sides of every 64-bit word boundary
				}
				fr := s.mkOp("free", g.ipBytes(g.blockBase(j)), net.CIDRMask(g.page, g.width), fmt.Sprintf("free block %d", j))
				s.Apply(fr, true)
				var hint Op
				if g.width == 32 {
					hint = s.mkOp("alloc", g.ipBytes(g.blockBase(j)).To16(), nil, fmt.Sprintf("hint block %d 16-byte", j))
				} else {
					hint = s.mkOp("alloc", g.ipBytes(new(big.Int).Add(g.blockBase(j), new(big.Int).Sub(g.size, big.NewInt(1)))), net.CIDRMask(128, 128), fmt.Sprintf("hint last address of block %d", j))
				}
				s.Apply(hint, true)
			}
			// and on an otherwise empty pool next to full words: free everything, hint each boundary block
			for j := int64(0); j < g.n; j++ {
				s.Apply(s.mkOp("free", g.ipBytes(g.blockBase(j)), net.CIDRMask(g.page, g.width), "free"), true)
			}
			for j := g.n - 1; j >= 0; j-- {
				if j > 1 && j < g.n-2 && (j%64 > 0 && j%64 < 63) {
					continue
				}
				s.Apply(s.mkOp("alloc", g.ipBytes(g.blockBase(j)), net.CIDRMask(g.page, g.width), fmt.Sprintf("hint block %d on sparse pool", j)), true)
			}
		}
		s.hist = nil
	}
}

func replayCase(r *ev.Run, id string, raw json.RawMessage) {
	var sc struct {
		Scenario string `json:"scenario"`
		Schedule []int  `json:"schedule"`
	}
	if json.Unmarshal(raw, &sc) == nil && sc.Scenario != "" {
		for _, s := range append(scenarios(true), freeScenarios(true)...) {
			if s.name == sc.Scenario {
				ex, viols, eng := sched.ReplayOne(s.scenario(), sc.Schedule)
				fmt.Printf("  scenario %s schedule %v -> %s %s\n", sc.Scenario, sc.Schedule, ex.Outcome, eng)
				for _, v := range viols {
					r.Violate(id+"/sched/"+sc.Scenario+"/"+v.Sig, v.What, sc)
				}
				return
			}
		}
		r.Violate(id+"/replay/unknown-scenario", sc.Scenario, nil)
		return
	}
	var c Case
	if err := json.Unmarshal(raw, &c); err != nil {
		r.Violate(id+"/replay/bad-file", err.Error(), nil)
		return
	}
	s := NewSys(r, id, c.Pool, true, true)
	for i, op := range c.Hist {
		obs := s.Apply(op, true)
		fmt.Printf("  step %d: %s %s/%s (%s) -> %s ; bits=%v\n", i, op.Kind, net.IP(unhx(op.IP)), net.IPMask(unhx(op.Mask)), op.Note, obs, s.bits())
	}
}
