package alloc

import (
	"bytes"
	"fmt"
	"os"
	"os/exec"
	"regexp"
	"strings"
	"sync"
	"time"

	"verifmc/ev"
)

// Free-running pass under the Go race detector (E4) for the allocators: the cooperative
// scheduler of E2 switches threads between statements of the allocator and treats the bitset
// library as atomic, so an access to the bitmap outside the allocator's lock has to be caught
// by the race detector in a separate run with real goroutines (a cooperative hand-off is a
// happens-before edge and would hide it).

var raceBlock = regexp.MustCompile(`(?s)WARNING: DATA RACE.*?==================`)
var repoFrame = regexp.MustCompile(`github\.com/coredhcp/coredhcp/([A-Za-z0-9_/.()*]+)\(\)`)

func racePass(r *ev.Run) {
	bin := os.Getenv("VERIF_RACE_BIN")
	if bin == "" {
		r.Capped("race pass skipped: no -race binary")
		return
	}
	r.Rule("E4: the E2 scenarios of the allocators, and 8 goroutines cycling allocate/free on a 64-address range and a 64-block prefix pool (all bits in one bitmap word), free-running under the Go race detector; a report with a frame in coredhcp code is a violation.")
	cmd := exec.Command(bin, "-check", r.ID, "-tier", r.Tier, "-worker", "race")
	cmd.Env = append(os.Environ(), "GORACE=halt_on_error=0 history_size=3")
	var buf bytes.Buffer
	cmd.Stdout, cmd.Stderr = &buf, &buf
	done := make(chan error, 1)
	if err := cmd.Start(); err != nil {
		panic("race worker could not start (checker error): " + err.Error())
	}
	go func() { done <- cmd.Wait() }()
	select {
	case <-done:
	case <-time.After(20 * time.Minute):
		cmd.Process.Kill()
		<-done
		r.Capped("race pass: time budget hit")
		return
	}
	out := buf.String()
	const marker = "\n@@VERIF-WORKER-EXPORT@@\n"
	if i := strings.LastIndex(out, marker); i >= 0 {
		r.Import([]byte(out[i+len(marker):]))
		out = out[:i]
	} else if repoFrame.MatchString(out) && (strings.Contains(out, "fatal error:") || strings.Contains(out, "panic:")) {
		fr := repoFrame.FindStringSubmatch(out)
		r.Violate(r.ID+"/free-running-crash/"+fr[1], "concurrent callers crashed the free-running allocator code", map[string]interface{}{"output_tail": tailOf(out)})
		return
	} else {
		panic("race worker died (checker error): " + tailOf(out))
	}
	blocks := raceBlock.FindAllString(out, -1)
	r.Set("race_reports", int64(len(blocks)))
	for _, b := range blocks {
		fr := repoFrame.FindAllStringSubmatch(b, -1)
		if len(fr) == 0 {
			continue // not in coredhcp code
		}
		seen := map[string]bool{}
		var fns []string
		for _, f := range fr {
			if !seen[f[1]] && !strings.Contains(f[1], "Verif") && !strings.Contains(f[1], "verif") {
				seen[f[1]] = true
				fns = append(fns, f[1])
			}
		}
		if len(fns) == 0 {
			continue
		}
		if len(fns) > 3 {
			fns = fns[:3]
		}
		if len(b) > 3000 {
			b = b[:3000]
		}
		r.Violate(r.ID+"/data-race/"+strings.Join(fns, "+"), "the Go race detector reports an unsynchronised access in coredhcp code: "+strings.Join(fns, ", "), map[string]interface{}{"race_report": b})
	}
}

func tailOf(s string) string {
	if len(s) > 1500 {
		return s[len(s)-1500:]
	}
	return s
}

// raceWorker runs inside the -race binary.
func raceWorker(r *ev.Run) {
	rounds, cycles := 300, 2000
	if !r.Quick() {
		rounds, cycles = 3000, 20000
	}
	for _, sc := range append(scenarios(true), freeScenarios(true)...) {
		g := newGeom(sc.pool)
		for i := 0; i < rounds; i++ {
			a := newAlloc(sc.pool)
			for _, b := range sc.pre {
				doOp(a, g, sop{"alloc", b})
			}
			var wg sync.WaitGroup
			start := make(chan struct{})
			for t := range sc.threads {
				t := t
				wg.Add(1)
				go func() {
					defer wg.Done()
					<-start
					for _, o := range sc.threads[t] {
						doOp(a, g, o)
					}
				}()
			}
			close(start)
			wg.Wait()
		}
		r.EvalN("race-rounds/"+sc.name, int64(rounds))
	}
	// dense: every goroutine keeps allocating and giving back inside one bitmap word
	for _, p := range []Pool{{V4: true, Start: "10.0.0.1", End: "10.0.0.64"}, {CIDR: "2001:db8:0:40::/58", Page: 64}} {
		g := newGeom(p)
		a := newAlloc(p)
		var wg sync.WaitGroup
		for t := 0; t < 8; t++ {
			wg.Add(1)
			go func() {
				defer wg.Done()
				for i := 0; i < cycles; i++ {
					if res := doOp(a, g, sop{"alloc", -1}); res.ok {
						doOp(a, g, sop{"free", int(res.blk)})
					}
				}
			}()
		}
		wg.Wait()
		r.EvalN(fmt.Sprintf("race-cycles/%s", p), int64(8*cycles))
	}
}
