package alloc

import "verifmc/ev"

// runSched: E2 scenarios on the allocators (filled in with the scheduler engine).
var runSched = func(r *ev.Run) {}
