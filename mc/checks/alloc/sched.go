package alloc

import (
	"fmt"
	"math/big"
	"net"
	"os"
	"sort"
	"strings"
	"sync"
	"time"

	"github.com/anishathalye/porcupine"
	"github.com/coredhcp/coredhcp/plugins/allocators"
	"github.com/coredhcp/coredhcp/plugins/allocators/bitmap"

	"verifmc/ev"
	"verifmc/reg"
	"verifmc/sched"
	"verifmc/verifsched"
)

// E2 scenarios on the allocators: 2-3 threads, 1-2 operations each, on a 2-block pool so
// that every pair of operations collides.

type sop struct {
	kind string // alloc | free
	blk  int    // hinted / freed block; -1 = no hint
}

type sres struct {
	ok  bool
	blk int64
}

type scen struct {
	name    string
	pool    Pool
	pre     []int // blocks allocated (by hint) before the threads start
	threads [][]sop
}

func newAlloc(p Pool) allocators.Allocator {
	if p.V4 {
		a, err := bitmap.NewIPv4Allocator(net.ParseIP(p.Start), net.ParseIP(p.End))
		if err != nil {
			panic(err)
		}
		return a
	}
	_, ipn, _ := net.ParseCIDR(p.CIDR)
	a, err := bitmap.NewBitmapAllocator(*ipn, p.Page)
	if err != nil {
		panic(err)
	}
	return a
}

func blockNet(g geom, i int) net.IPNet {
	if i < 0 {
		return net.IPNet{}
	}
	return net.IPNet{IP: g.ipBytes(g.blockBase(int64(i))), Mask: net.CIDRMask(g.page, g.width)}
}

func doOp(a allocators.Allocator, g geom, o sop) sres {
	if o.kind == "free" {
		return sres{ok: a.Free(blockNet(g, o.blk)) == nil, blk: int64(o.blk)}
	}
	n, err := a.Allocate(blockNet(g, o.blk))
	if err != nil {
		return sres{}
	}
	var addr *big.Int
	if g.width == 32 {
		addr = new(big.Int).SetBytes(n.IP.To4())
	} else {
		addr = new(big.Int).SetBytes(n.IP.To16())
	}
	return sres{ok: true, blk: g.blockOf(addr)}
}

type histOp struct {
	thread    int
	op        sop
	res       sres
	call, ret int64
}

func (sc scen) scenario() sched.Scenario {
	g := newGeom(sc.pool)
	outcome := func(a allocators.Allocator, res [][]sres) string {
		var parts []string
		for t, rs := range res {
			for i, r := range rs {
				parts = append(parts, fmt.Sprintf("t%d.%d:%s(%d)=%v/%d", t, i, sc.threads[t][i].kind, sc.threads[t][i].blk, r.ok, r.blk))
			}
		}
		return strings.Join(parts, " ") + fmt.Sprintf(" bits=%v", a.(vbits).VerifBits())
	}
	pre := func(a allocators.Allocator) {
		for _, b := range sc.pre {
			if r := doOp(a, g, sop{"alloc", b}); !r.ok || r.blk != int64(b) {
				panic("scenario precondition failed")
			}
		}
	}
	return sched.Scenario{
		Name: sc.name,
		Setup: func(run *verifsched.Run) func(*verifsched.Run) sched.Exec {
			a := newAlloc(sc.pool)
			pre(a)
			res := make([][]sres, len(sc.threads))
			var hist []histOp
			for t := range sc.threads {
				t := t
				res[t] = make([]sres, len(sc.threads[t]))
				run.Spawn(fmt.Sprintf("T%d", t), func() {
					for i, o := range sc.threads[t] {
						call := run.Clock()
						r := doOp(a, g, o)
						res[t][i] = r
						hist = append(hist, histOp{t, o, r, call, run.Clock()})
					}
				})
			}
			return func(run *verifsched.Run) sched.Exec {
				ex := sched.Exec{Outcome: outcome(a, res)}
				// direct invariant: blocks outstanding at the end are pairwise distinct and match the bitmap
				held := map[int64]int{}
				for _, b := range sc.pre {
					held[int64(b)]++
				}
				for _, h := range hist {
					if h.op.kind == "alloc" && h.res.ok {
						held[h.res.blk]++
					}
					if h.op.kind == "free" && h.res.ok {
						held[h.res.blk]--
					}
				}
				for b, n := range held {
					if n > 1 {
						ex.Violations = append(ex.Violations, sched.Viol{Sig: "double-allocation", What: fmt.Sprintf("block %d is outstanding %d times at the end of the run (%s)", b, n, ex.Outcome)})
					}
				}
				// second opinion: porcupine on the call/return history
				if len(hist) == totalOps(sc) && !linearizable(sc, g, hist) {
					ex.Violations = append(ex.Violations, sched.Viol{Sig: "porcupine-not-linearizable", What: "history rejected by the porcupine linearizability checker: " + ex.Outcome})
				}
				return ex
			}
		},
		Serial: func() map[string]string {
			out := map[string]string{}
			n := len(sc.threads)
			idx := make([]int, n)
			for i := range idx {
				idx[i] = i
			}
			permute(idx, func(order []int) {
				// thread-granular orders are not enough when threads have 2 ops: enumerate all
				// interleavings of the per-thread op sequences that respect program order
				interleavings(sc.threads, func(seq [][2]int) {
					a := newAlloc(sc.pool)
					pre(a)
					res := make([][]sres, n)
					for t := range res {
						res[t] = make([]sres, len(sc.threads[t]))
					}
					for _, s := range seq {
						res[s[0]][s[1]] = doOp(a, g, sc.threads[s[0]][s[1]])
					}
					out[outcome(a, res)] = fmt.Sprint(seq)
				})
			})
			return out
		},
	}
}

func totalOps(sc scen) int {
	n := 0
	for _, t := range sc.threads {
		n += len(t)
	}
	return n
}

func permute(a []int, f func([]int)) { f(a) } // orders are covered by interleavings()

func interleavings(threads [][]sop, f func([][2]int)) {
	pos := make([]int, len(threads))
	var cur [][2]int
	var rec func()
	rec = func() {
		done := true
		for t := range threads {
			if pos[t] < len(threads[t]) {
				done = false
				cur = append(cur, [2]int{t, pos[t]})
				pos[t]++
				rec()
				pos[t]--
				cur = cur[:len(cur)-1]
			}
		}
		if done {
			f(append([][2]int{}, cur...))
		}
	}
	rec()
}

// linearizable feeds the history to porcupine with a nondeterministic reference model:
// Allocate returns the hinted block if it is free, else any free block, and fails iff the
// pool is full; Free succeeds iff the block is outstanding.
func linearizable(sc scen, g geom, hist []histOp) bool {
	init := uint64(0)
	for _, b := range sc.pre {
		init |= 1 << uint(b)
	}
	full := uint64(1)<<uint(g.n) - 1
	m := porcupine.NondeterministicModel{
		Init: func() []interface{} { return []interface{}{init} },
		Step: func(state, input, output interface{}) []interface{} {
			st, in, out := state.(uint64), input.(sop), output.(sres)
			if in.kind == "free" {
				held := st&(1<<uint(in.blk)) != 0
				if out.ok != held {
					return nil
				}
				if held {
					return []interface{}{st &^ (1 << uint(in.blk))}
				}
				return []interface{}{st}
			}
			if !out.ok {
				if st == full {
					return []interface{}{st}
				}
				return nil
			}
			if out.blk < 0 || out.blk >= g.n || st&(1<<uint(out.blk)) != 0 {
				return nil
			}
			if in.blk >= 0 && st&(1<<uint(in.blk)) == 0 && out.blk != int64(in.blk) {
				return nil // a free hinted block must be honoured
			}
			return []interface{}{st | 1<<uint(out.blk)}
		},
		Equal: func(a, b interface{}) bool { return a.(uint64) == b.(uint64) },
	}
	var ops []porcupine.Operation
	for _, h := range hist {
		ops = append(ops, porcupine.Operation{ClientId: h.thread, Input: h.op, Output: h.res, Call: h.call, Return: h.ret})
	}
	return porcupine.CheckOperations(m.ToModel(), ops)
}

// freeScenarios: concurrent Free calls (C06): of two simultaneous Frees of one outstanding
// block exactly one may succeed, also with an Allocate in between.
func freeScenarios(thorough bool) []scen {
	v6 := Pool{CIDR: "2001:db8:0:10::/63", Page: 64}
	v4 := Pool{V4: true, Start: "10.0.0.1", End: "10.0.0.2"}
	var out []scen
	for _, p := range []Pool{v6, v4} {
		fam := "v6"
		if p.V4 {
			fam = "v4"
		}
		out = append(out,
			scen{name: fam + "/free||free-same-block", pool: p, pre: []int{0}, threads: [][]sop{{{"free", 0}}, {{"free", 0}}}},
			scen{name: fam + "/free||free||alloc", pool: p, pre: []int{0, 1}, threads: [][]sop{{{"free", 0}}, {{"free", 0}}, {{"alloc", -1}}}},
		)
		if thorough {
			out = append(out, scen{name: fam + "/free;alloc||free;free", pool: p, pre: []int{0}, threads: [][]sop{{{"free", 0}, {"alloc", 0}}, {{"free", 0}, {"free", 1}}}})
		}
	}
	return out
}

func allScenarios(id string, thorough bool) []scen {
	if id == "C06" {
		return freeScenarios(thorough)
	}
	return scenarios(thorough)
}

func scenarios(thorough bool) []scen {
	v6 := Pool{CIDR: "2001:db8:0:10::/63", Page: 64}
	v4 := Pool{V4: true, Start: "10.0.0.1", End: "10.0.0.2"}
	var out []scen
	for _, p := range []Pool{v6, v4} {
		fam := "v6"
		if p.V4 {
			fam = "v4"
		}
		out = append(out,
			scen{name: fam + "/2xalloc-same-hint", pool: p, threads: [][]sop{{{"alloc", 0}}, {{"alloc", 0}}}},
			scen{name: fam + "/free||alloc-hint||alloc", pool: p, pre: []int{0}, threads: [][]sop{{{"free", 0}}, {{"alloc", 0}}, {{"alloc", -1}}}},
			scen{name: fam + "/alloc;free||alloc;alloc", pool: p, threads: [][]sop{{{"alloc", -1}, {"free", 0}}, {{"alloc", -1}, {"alloc", 1}}}},
		)
		if thorough {
			out = append(out,
				scen{name: fam + "/3xalloc-on-2-blocks", pool: p, threads: [][]sop{{{"alloc", -1}}, {{"alloc", -1}}, {{"alloc", 1}}}},
				scen{name: fam + "/3x(alloc;free)", pool: p, threads: [][]sop{{{"alloc", -1}, {"free", 0}}, {{"alloc", 0}, {"free", 1}}, {{"alloc", 1}, {"alloc", -1}}}},
			)
		}
	}
	return out
}

// SchedBudget is the wall-clock budget per scenario (truncation clears exhaustive, never a verdict).
func schedBudget(thorough bool) time.Duration {
	if thorough {
		return 10 * time.Minute
	}
	return 90 * time.Second
}

var runSched func(r *ev.Run)

func init() {
	runSched = func(r *ev.Run) {
		if os.Getenv("VERIF_SCHED") != "1" {
			r.Capped("scheduler-based scenarios skipped: binary not built with the instrumentation overlay")
			return
		}
		bound := 2
		if !r.Quick() {
			bound = 3
		}
		_ = bound
		// one worker process per scenario (an exploration owns the process-wide scheduler)
		var wg sync.WaitGroup
		sem := make(chan struct{}, 16)
		for _, sc := range allScenarios(r.ID, !r.Quick()) {
			sc := sc
			wg.Add(1)
			sem <- struct{}{}
			go func() {
				defer wg.Done()
				defer func() { <-sem }()
				res := reg.Spawn(r, r.ID, schedBudget(!r.Quick())+5*time.Minute, "sched", sc.name)
				if res.Died || res.Hung {
					panic("E2 worker for " + sc.name + " failed (checker error, not a verdict): " + res.Output)
				}
			}()
		}
		wg.Wait()
	}
}

// runOneSched explores one allocator scenario (worker side).
func runOneSched(r *ev.Run, name string) {
	bound := 2
	if !r.Quick() {
		bound = 3
	}
	for _, sc := range allScenarios(r.ID, true) {
		if sc.name == name {
			res := sched.Explore(sc.scenario(), bound, schedBudget(!r.Quick()))
			ReportSched(r, r.ID, res, map[string]interface{}{"pool": sc.pool.String(), "threads": fmt.Sprint(sc.threads), "pre": sc.pre})
		}
	}
}

// ReportSched folds one scenario result into the run (shared by the other E2 checks).
func ReportSched(r *ev.Run, id string, res sched.Result, descr map[string]interface{}) {
	if res.EngineError != "" {
		panic("E2 engine error in " + res.Scenario + ": " + res.EngineError)
	}
	minSteps := int64(10)
	if strings.HasSuffix(res.Scenario, "/sync-level-unbounded") {
		minSteps = 3 // only lock acquisitions and thread starts/ends are points in that pass
	}
	if res.Steps < minSteps*res.Schedules {
		panic("E2 engine error in " + res.Scenario + ": no scheduling points were hit (instrumentation missing?)")
	}
	r.EvalN("sched/"+res.Scenario, res.Schedules)
	r.Add("schedules", res.Schedules)
	r.Add("schedule_points", res.Points)
	r.AddGraph(int64(len(res.Outcomes)), res.Points, res.Schedules) // states = distinct end states (outcomes)
	var outs []string
	for o := range res.Outcomes {
		outs = append(outs, o)
		r.Eval("outcome/" + res.Scenario + "/" + o)
	}
	sort.Strings(outs)
	d := map[string]interface{}{"scenario": res.Scenario, "schedules": res.Schedules, "max_choice_points": res.MaxPoints, "preemption_bound_completed": res.BoundCompleted, "distinct_outcomes": len(outs), "serial_outcomes": len(res.Serial), "sample_schedule_rle": rle(res.Sample)}
	for k, v := range descr {
		d[k] = v
	}
	r.Sample("sched/"+res.Scenario, d)
	if res.Truncated || res.BoundCompleted < res.BoundAsked && len(res.Found) == 0 {
		r.Capped(fmt.Sprintf("%s: time budget hit; preemption bound %d completed (asked %d), %d schedules", res.Scenario, res.BoundCompleted, res.BoundAsked, res.Schedules))
	}
	if len(outs) < 2 && len(res.Serial) > 1 {
		r.Set("vacuity_warning_"+res.Scenario, "only one outcome observed although sequential orders differ")
	}
	for _, f := range res.Found {
		r.Violate(id+"/sched/"+res.Scenario+"/"+f.Sig, fmt.Sprintf("scenario %s, schedule %v: %s", res.Scenario, f.Choices, f.What), map[string]interface{}{"scenario": res.Scenario, "schedule": f.Choices, "outcome": f.Outcome})
	}
}

// rle renders a choice list compactly: "1 0x40 2 0x13".
func rle(c []int) string {
	var sb strings.Builder
	for i := 0; i < len(c); {
		j := i
		for j < len(c) && c[j] == c[i] {
			j++
		}
		if j-i > 1 {
			fmt.Fprintf(&sb, "%dx%d ", c[i], j-i)
		} else {
			fmt.Fprintf(&sb, "%d ", c[i])
		}
		i = j
	}
	return strings.TrimSpace(sb.String())
}
