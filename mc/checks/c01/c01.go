// Package c01: no datagram, in any history, can crash or wedge the server.
// E3: grammar-generated seed datagrams and their complete 1-deviation closure through the real
// HandleMsg4/6 under plugin chains (one process per chain: plugin configuration is global).
// E1: all sequences up to depth 2/3 of state-relevant datagrams on fresh lease plugins.
package c01

import (
	"bytes"
	"encoding/binary"
	"encoding/hex"
	"encoding/json"
	"fmt"
	"net"
	"os"
	"path/filepath"
	"sort"
	"strings"
	"sync"
	"syscall"
	"time"

	"github.com/coredhcp/coredhcp/handler"
	"github.com/coredhcp/coredhcp/plugins/prefix"
	rangeplugin "github.com/coredhcp/coredhcp/plugins/range"
	"github.com/insomniacslk/dhcp/dhcpv6"

	"verifmc/checks/c16"
	"verifmc/checks/lease"
	"verifmc/checks/optplug"
	"verifmc/checks/pd"
	"verifmc/conc"
	"verifmc/ev"
	"verifmc/pkt"
	"verifmc/reg"
	"verifmc/srv"
)

func init() {
	reg.Register(&reg.Check{ID: "C01", Level: "exploration", Run: run, Replay: replay, Worker: worker})
}

type Item struct {
	Plugin string   `json:"plugin"`
	Args   []string `json:"args"`
}

type Chain struct {
	Proto int    `json:"proto"`
	Items []Item `json:"chain"`
	Mode  string `json:"mode"` // "seeds" | "closure" | "histories"
}

type Case struct {
	Chain     Chain    `json:"config"`
	Bound     int      `json:"bound_ifindex"`
	Oob       int      `json:"oob_ifindex"`
	SendFails bool     `json:"every_send_fails,omitempty"` // environment fault in force
	LogLevel  string   `json:"log_level,omitempty"`        // process-wide log level in force ("" = nothing logged)
	History   []string `json:"datagrams_hex"`              // the last one is the failing datagram
}

func args4(scratch string) map[string][]string {
	os.WriteFile(filepath.Join(scratch, "c01-leases4.txt"), []byte("02:00:00:00:5a:01 10.10.10.7\n"), 0o644)
	return map[string][]string{
		"lease_time": {"3600s"}, "server_id": {"10.10.10.1"}, "dns": {"8.8.8.8", "8.8.4.4"}, "router": {"192.168.1.1"},
		"netmask": {"255.255.255.0"}, "range": {filepath.Join(scratch, "c01-leases.sqlite"), "10.10.10.254", "10.10.11.1", "60s"},
		"file": {filepath.Join(scratch, "c01-leases4.txt")}, "mtu": {"1500"}, "searchdomains": {"a.example", "b.example"},
		"staticroute": {"10.0.0.0/8,10.10.10.1"}, "ipv6only": {"300s"}, "autoconfigure": {"1"}, "nbp": {"tftp://10.0.0.1/boot"}, "sleep": {"0s"},
	}
}

func args6(scratch string) map[string][]string {
	os.WriteFile(filepath.Join(scratch, "c01-leases6.txt"), []byte("02:00:00:00:5a:01 2001:db8:9::7\n"), 0o644)
	return map[string][]string{
		"server_id": {"LL", "00:de:ad:be:ef:00"}, "file": {filepath.Join(scratch, "c01-leases6.txt")},
		"dns": {"2001:4860:4860::8888", "2001:4860:4860::8844"}, "nbp": {"http://[2001:db8:a::1]/nbp?params=x"},
		"prefix": {"2001:db8:0:10::/62", "64"}, "searchdomains": {"a.example"}, "sleep": {"0s"},
	}
}

var order4 = []string{"lease_time", "server_id", "ipv6only", "autoconfigure", "file", "dns", "router", "netmask", "mtu", "searchdomains", "staticroute", "range", "sleep", "nbp"}
var order6 = []string{"server_id", "file", "dns", "searchdomains", "prefix", "sleep", "nbp"}

func chains(thorough bool) []Chain {
	var out []Chain
	mk := func(proto int, mode string, names ...string) Chain {
		c := Chain{Proto: proto, Mode: mode}
		for _, n := range names {
			c.Items = append(c.Items, Item{Plugin: n})
		}
		return c
	}
	// full chains (closure), in rotations so that every plugin is reached by some chain
	full4 := [][]string{
		{"lease_time", "server_id", "dns", "router", "netmask", "range"}, // config.yml.example
		{"server_id", "file", "range", "dns", "router", "netmask", "mtu", "searchdomains", "staticroute", "lease_time", "autoconfigure", "sleep", "nbp"},
		{"range", "autoconfigure", "ipv6only", "staticroute", "searchdomains", "mtu", "netmask", "router", "dns", "file", "server_id", "lease_time"},
	}
	full6 := [][]string{
		{"server_id", "file", "dns", "nbp", "prefix"}, // config.yml.example
		{"server_id", "file", "prefix", "dns", "searchdomains", "sleep", "nbp"},
		{"prefix", "searchdomains", "dns", "file", "server_id"},
	}
	for _, c := range full4 {
		out = append(out, mk(4, "closure", c...))
	}
	for _, c := range full6 {
		out = append(out, mk(6, "closure", c...))
	}
	out = append(out, mk(4, "seeds"), mk(6, "seeds")) // empty chains
	for _, a := range order4 {
		out = append(out, mk(4, "seeds", a))
	}
	for _, a := range order6 {
		out = append(out, mk(6, "seeds", a))
	}
	if thorough {
		for _, a := range order4 {
			for _, b := range order4 {
				if a != b {
					out = append(out, mk(4, "seeds", a, b))
				}
			}
		}
		for _, a := range order6 {
			for _, b := range order6 {
				if a != b {
					out = append(out, mk(6, "seeds", a, b))
				}
			}
		}
	}
	out = append(out, Chain{Proto: 4, Mode: "histories"}, Chain{Proto: 6, Mode: "histories"})
	out = append(out, Chain{Proto: 4, Mode: "graphs"}, Chain{Proto: 6, Mode: "graphs"})
	out = append(out, Chain{Proto: 4, Mode: "flood"}, Chain{Proto: 6, Mode: "flood"})
	return out
}

func run(r *ev.Run) {
	r.Rule("E3 (one process per plugin chain): grammar-generated seeds - v4: message type {DISCOVER, REQUEST, 5 others, none} x hlen {0,1,5,6,8,16,17,255} x PRL {absent, empty, full} x option sets x {giaddr, ciaddr, broadcast}; v6: 16 message types x client-id {absent, LL, LLT, EN, UUID, malformed} x {IA_NA, IA_PD with 9 hint shapes, ORO, rapid commit, server-id own/other} x relay depth 0..4, 32 and the deepest nesting that fits a datagram, plus all byte strings of length 0..2 - through the real HandleMsg4/6 under every single built-in plugin, the example-config chains and full chains in 3 rotations (thorough: every ordered pair), with listener {bound, unbound} x control message {nil, interface}. For the full chains also the complete 1-deviation closure of the seeds (every truncation, every single-bit flip, every byte replaced by 00/01/7f/80/ff, every adjacent option swap); thorough adds every pair of byte substitutions in the option area of 12 seeds per chain. E1: every sequence of length <= 2 (thorough 3) over the state-relevant datagrams on fresh range / prefix instances; plus the state graphs of C02 and C08 (requests, restarts, leases running out after an hour / two days, read-only lease database) explored breadth-first within a time budget for crashes and locks left held. Environment deviation: the seeds are also run with every send failing (ENETUNREACH on the UDP socket, EPERM at the raw socket), and with the process-wide log level at debug and at trace (output discarded, everything logged is formatted). E2: the DHCPv4 and DHCPv6 Serve loops as two threads of one controlled execution (a few datagrams each), all schedules up to 1 (thorough 2) preemptions: no panic, no deadlock. Oracle: no panic, at most one reply, no lease-plugin mutex left held, a final well-formed probe is still handled, no datagram takes longer than the watchdog. Class = chain mode/proto/outcome.")
	r.Assume("datagrams further than one deviation from a seed, chains of 3+ plugins other than the listed ones, and the real socket write are not explored; a hang is a datagram exceeding a 20 s watchdog that reproduces when re-run alone")
	cs := chains(!r.Quick())
	r.Set("chains", int64(len(cs)))
	var wg sync.WaitGroup
	sem := make(chan struct{}, 16)
	for _, c := range cs {
		c := c
		wg.Add(1)
		sem <- struct{}{}
		go func() {
			defer wg.Done()
			defer func() { <-sem }()
			b, _ := json.Marshal(c)
			res := reg.Spawn(r, "C01", 40*time.Minute, string(b))
			if res.Died || res.Hung {
				// re-run alone to confirm, then report with whatever the worker printed last
				res2 := reg.Spawn(ev.New("C01", r.Tier, "exploration"), "C01", 40*time.Minute, string(b))
				if res2.Hung && !strings.Contains(res2.Output, "@@HANG") {
					// the worker was still busy when the driver's budget ran out: no datagram was
					// stuck (that is what @@HANG reports); this is truncation, not a verdict
					r.Capped("chain " + chainName(c) + ": worker did not finish within the 40 min budget")
				} else if res2.Died || res2.Hung {
					sig, what := "C01/process-died/", "the worker handling datagrams under this chain died outside a recoverable panic (log.Fatal / runtime fatal error)"
					if strings.Contains(res2.Output, "@@HANG") {
						sig, what = "C01/hang/", "a datagram blocked the handler for more than the watchdog"
					}
					r.Violate(sig+chainName(c), what+": "+lastLines(res2.Output), Case{Chain: c})
				}
			}
		}()
	}
	wg.Wait()
	// "never blocks forever" under concurrency: the lookup-during-reload scenarios of C16 are
	// explored with all schedules up to the preemption bound; a deadlock (no thread can run)
	// or a lock left held is reported here.
	c16.RunSpecs(r, "C01", func(sp conc.Spec) bool { return sp.Reload })
	// both Serve loops in one process
	dualStackServe(r)
}

func chainName(c Chain) string {
	var n []string
	for _, it := range c.Items {
		n = append(n, it.Plugin)
	}
	return fmt.Sprintf("v%d[%s]", c.Proto, strings.Join(n, ","))
}

func lastLines(s string) string {
	l := strings.Split(strings.TrimSpace(s), "\n")
	if len(l) > 8 {
		l = l[len(l)-8:]
	}
	return strings.Join(l, " | ")
}

// ---------------------------------------------------------------- worker

type instance struct {
	chain Chain
	hs4   []handler.Handler4
	hs6   []handler.Handler6
	rng   *rangeplugin.PluginState
	pd    *prefix.Handler
	db    string
}

var instSeq int

// build sets up the chain. Stateless plugins are set up once per process (cached), the
// lease plugins (range, prefix) freshly on every call.
var cache4 = map[string]handler.Handler4{}
var cache6 = map[string]handler.Handler6{}

func build(c Chain) (*instance, error) {
	scratch := srv.Scratch()
	a4, a6 := args4(scratch), args6(scratch)
	in := &instance{chain: c}
	for _, it := range c.Items {
		p := optplug.Plugins[it.Plugin]
		if c.Proto == 4 {
			args := it.Args
			if args == nil {
				args = append([]string{}, a4[it.Plugin]...)
			}
			if it.Plugin == "range" {
				instSeq++
				in.db = filepath.Join(scratch, fmt.Sprintf("c01-%d.sqlite", instSeq))
				args[0] = in.db
				h, err := p.Setup4(args...)
				if err != nil {
					return nil, err
				}
				in.rng = rangeplugin.VerifInstance(in.db)
				rangeplugin.VerifForget(in.db)
				in.hs4 = append(in.hs4, h)
				continue
			}
			h, ok := cache4[it.Plugin]
			if !ok {
				var err error
				if h, err = p.Setup4(args...); err != nil {
					return nil, fmt.Errorf("%s: %v", it.Plugin, err)
				}
				cache4[it.Plugin] = h
			}
			in.hs4 = append(in.hs4, h)
		} else {
			args := it.Args
			if args == nil {
				args = a6[it.Plugin]
			}
			if it.Plugin == "prefix" {
				h, err := p.Setup6(args...)
				if err != nil {
					return nil, err
				}
				srv.PrefixGate.Lock()
				in.pd = prefix.VerifCapture(func() {
					req, _ := dhcpv6.FromBytes((pkt.Msg6{Type: 1}).Bytes())
					h(req, &dhcpv6.Message{MessageType: dhcpv6.MessageTypeAdvertise})
				})
				srv.PrefixGate.Unlock()
				in.hs6 = append(in.hs6, h)
				continue
			}
			h, ok := cache6[it.Plugin]
			if !ok {
				var err error
				if h, err = p.Setup6(args...); err != nil {
					return nil, fmt.Errorf("%s: %v", it.Plugin, err)
				}
				cache6[it.Plugin] = h
			}
			in.hs6 = append(in.hs6, h)
		}
	}
	return in, nil
}

func (in *instance) close() {
	if in.rng != nil {
		in.rng.VerifClose()
		os.Remove(in.db)
	}
}

var (
	curMu   sync.Mutex
	curCase *Case
	curAt   time.Time
)

func watchdog() {
	go func() {
		for {
			time.Sleep(time.Second)
			curMu.Lock()
			c, at := curCase, curAt
			curMu.Unlock()
			if c != nil && time.Since(at) > 20*time.Second {
				b, _ := json.Marshal(c)
				fmt.Printf("\n@@HANG %s\n", b)
				os.Exit(3)
			}
		}
	}()
}

var realIdx = func() int {
	for _, i := range srv.Ifaces() {
		if i.Flags&net.FlagLoopback == 0 && i.Flags&net.FlagUp != 0 {
			return i.Index
		}
	}
	return 1
}()

func ifByIndex(idx int) net.Interface {
	for _, i := range srv.Ifaces() {
		if i.Index == idx {
			return i
		}
	}
	return net.Interface{}
}

var peer6s = []*net.UDPAddr{{IP: net.ParseIP("fe80::99"), Port: 546}, {IP: net.ParseIP("2001:db8::99"), Port: 546}}

// handle pushes one datagram through the real entry point and applies the oracle.
var faultOn bool

// setLogLevel sets the process-wide log level for what follows (recorded in every case).
var logLevel string

func setLogLevel(l string) {
	logLevel = l
	srv.SetLogLevel(l)
}

// setFault switches the environment fault "every send fails" on or off.
func setFault(on bool) {
	faultOn = on
	srv.Fault.SendErr, srv.Fault.FrameErr = nil, nil
	if on {
		srv.Fault.SendErr = fmt.Errorf("sendmsg: %w", syscall.ENETUNREACH)
		srv.Fault.FrameErr = fmt.Errorf("Send Ethernet: Cannot open socket: %w", syscall.EPERM)
	}
}

func (in *instance) handle(r *ev.Run, d []byte, bound, oob int, hist []string, class string) bool {
	c := Case{Chain: in.chain, Bound: bound, Oob: oob, SendFails: faultOn, LogLevel: logLevel, History: append(append([]string{}, hist...), hex.EncodeToString(d))}
	curMu.Lock()
	curCase, curAt = &c, time.Now()
	curMu.Unlock()
	var out srv.Out
	var ifi net.Interface
	if bound != 0 {
		ifi = ifByIndex(bound)
	}
	if in.chain.Proto == 4 {
		out = srv.Run4(ifi, in.hs4, d, oob, nil)
	} else {
		srv.PrefixGate.RLock()
		out = srv.Run6(ifi, in.hs6, d, oob, peer6s[len(d)%2])
		srv.PrefixGate.RUnlock()
	}
	curMu.Lock()
	curCase = nil
	curMu.Unlock()
	if out.Panic != "" {
		r.Violate("C01/panic/"+panicSite(out.Panic), fmt.Sprintf("chain %s: handling the datagram panicked: %s", chainName(in.chain), firstLine(out.Panic)), map[string]interface{}{"case": c, "stack": out.Panic})
		r.Eval(class + "/panic")
		return false
	}
	if out.Replies() > 1 {
		r.Violate("C01/more-than-one-reply", fmt.Sprintf("%d replies to one datagram", out.Replies()), c)
	}
	if in.rng != nil && in.rng.VerifLocked() {
		r.Violate("C01/lock-left-held/range", "range plugin mutex held after the handler returned", c)
		return false
	}
	if in.pd != nil && in.pd.VerifLocked() {
		r.Violate("C01/lock-left-held/prefix", "prefix plugin mutex held after the handler returned", c)
		return false
	}
	cl := fmt.Sprintf("%s/replies=%d", class, out.Replies())
	r.Eval(cl)
	if len(d) < 600 {
		r.Sample(cl, c)
	}
	return true
}

var siteRe = strings.NewReplacer("github.com/coredhcp/coredhcp/", "")

// panicSite names the innermost coredhcp (or codec) frame of a panic stack.
func panicSite(stack string) string {
	lines := strings.Split(stack, "\n")
	for _, l := range lines {
		l = strings.TrimSpace(l)
		if strings.HasPrefix(l, "github.com/coredhcp/coredhcp/") && !strings.Contains(l, "verif") && !strings.Contains(l, "Verif") {
			f := siteRe.Replace(l)
			if i := strings.LastIndex(f, "("); i > 0 {
				f = f[:i]
			}
			return f
		}
	}
	for _, l := range lines {
		l = strings.TrimSpace(l)
		if strings.HasPrefix(l, "github.com/insomniacslk/dhcp/") {
			if i := strings.LastIndex(l, "("); i > 0 {
				l = l[:i]
			}
			return l
		}
	}
	return "unknown"
}

func firstLine(s string) string {
	if i := strings.IndexByte(s, '\n'); i >= 0 {
		return s[:i]
	}
	return s
}

func worker(args []string) int {
	r := ev.New("C01", reg.Tier, "exploration")
	var c Chain
	if err := json.Unmarshal([]byte(args[0]), &c); err != nil {
		panic(err)
	}
	watchdog()
	thorough := reg.Tier == "thorough"
	if c.Mode == "replay" {
		var cs Case
		raw := []byte(args[1])
		if strings.HasPrefix(args[1], "@") {
			var err error
			if raw, err = os.ReadFile(args[1][1:]); err != nil {
				panic(err)
			}
		}
		if err := json.Unmarshal(raw, &cs); err != nil {
			panic(err)
		}
		if cs.Chain.Mode == "flood" {
			// the history of a flood case is a description, not datagrams: run the scenario again
			flood(r, cs.Chain.Proto)
			return reg.WorkerExit(r)
		}
		in, err := build(cs.Chain)
		if err != nil {
			panic(err)
		}
		var hist []string
		setFault(cs.SendFails)
		setLogLevel(cs.LogLevel)
		for i, h := range cs.History {
			d, _ := hex.DecodeString(h)
			ok := in.handle(r, d, cs.Bound, cs.Oob, hist, "replay")
			fmt.Printf("  datagram %d (%d bytes): handled without violation = %v\n", i, len(d), ok)
			hist = append(hist, h)
		}
		return reg.WorkerExit(r)
	}
	if c.Mode == "histories" {
		histories(r, c.Proto, thorough)
		return reg.WorkerExit(r)
	}
	if c.Mode == "flood" {
		flood(r, c.Proto)
		return reg.WorkerExit(r)
	}
	if c.Mode == "graphs" {
		// long histories: the state graphs of the lease plugins (requests of 2-4 clients with
		// every hint shape / hardware-address shape, restarts, leases running out after an
		// hour and after two days, a read-only lease database) explored breadth-first within
		// a time budget, looking only for crashes and locks left held
		budget := 150 * time.Second
		if thorough {
			budget = 25 * time.Minute
		}
		if c.Proto == 4 {
			lease.Crash(r, "C01", budget, false)
		} else {
			pd.Crash(r, "C01", budget, false)
		}
		return reg.WorkerExit(r)
	}
	in, err := build(c)
	if err != nil {
		r.Violate("C01/valid-chain-rejected/"+chainName(c), "setup of a chain with valid arguments failed: "+err.Error(), Case{Chain: c})
		return reg.WorkerExit(r)
	}
	envs := [][2]int{{0, realIdx}, {realIdx, realIdx}, {0, 0}, {realIdx, 0}}
	if !thorough && c.Mode == "seeds" {
		envs = envs[:3]
	}
	var seeds [][]byte
	if c.Proto == 4 {
		seeds = seeds4()
	} else {
		seeds = seeds6()
	}
	class := fmt.Sprintf("%s/v%d", c.Mode, c.Proto)
	alive := true
	// a well-formed probe from one fixed client, before and after everything else
	probe := probe4
	if c.Proto == 6 {
		probe = probe6
	}
	before := in.probe(probe)
	all := append(append([][]byte{}, seeds...), shortStrings()...)
	for _, e := range envs {
		for _, s := range all {
			if alive = in.handle(r, s, e[0], e[1], nil, class+"/seed"); !alive {
				break
			}
		}
		if !alive {
			break
		}
	}
	r.Add("seeds", int64(len(seeds)))
	if alive {
		// one deviation of the environment: every send fails (unreachable network for the
		// UDP socket, refused raw socket for link-level frames). The datagrams are the same
		// seeds; the server must log and carry on.
		setFault(true)
		for _, e := range envs[:2] {
			for _, s := range all {
				if alive = in.handle(r, s, e[0], e[1], nil, class+"/seed-send-fails"); !alive {
					break
				}
			}
			if !alive {
				break
			}
		}
		setFault(false)
	}
	if alive {
		// another deviation of the environment: the process-wide log level (-L debug / trace).
		// Statements guarded by the level, and the formatting of everything that is logged,
		// execute only now.
		for _, lvl := range []string{"debug", "trace"} {
			setLogLevel(lvl)
			for _, e := range envs[:2] {
				for _, s := range all {
					if alive = in.handle(r, s, e[0], e[1], nil, class+"/seed-log-"+lvl); !alive {
						break
					}
				}
				if !alive {
					break
				}
			}
			if !alive {
				break
			}
		}
		setLogLevel("")
	}
	if alive && c.Mode == "closure" {
		cl := seeds
		if !thorough {
			cl = reduced(seeds, 64)
		}
		n := int64(0)
		deadline := time.Now().Add(25 * time.Minute)
		for _, s := range cl {
			if len(s) > 2048 {
				continue // the deepest relay nestings (up to 64 KiB) run as seeds only
			}
			if time.Now().After(deadline) {
				r.Capped("chain " + chainName(c) + ": 1-deviation closure stopped by the 25 min budget")
				break
			}
			mutate(s, c.Proto, func(m []byte) bool {
				n++
				alive = in.handle(r, m, 0, realIdx, nil, class+"/mutant")
				return alive
			})
			if !alive {
				break
			}
		}
		r.Add("mutants", n)
		if alive && thorough {
			// 2-deviation closure on a reduced set: every PAIR of byte substitutions
			// (values 00/01/7f/80/ff) at two positions of the option area (and the
			// hardware-address-length / hop-count bytes) of 12 seeds
			var n2 int64
			for _, s := range reduced(seeds, 12) {
				if len(s) > 2048 || time.Now().After(deadline.Add(10*time.Minute)) {
					continue
				}
				lo := 4
				if c.Proto == 4 {
					lo = 240
				}
				var pos []int
				if c.Proto == 4 {
					pos = append(pos, 2, 3)
				}
				for i := lo; i < len(s) && len(pos) < 72; i++ {
					pos = append(pos, i)
				}
				vals := []byte{0x00, 0x01, 0x7f, 0x80, 0xff}
				for a := 0; a < len(pos) && alive; a++ {
					for b := a + 1; b < len(pos) && alive; b++ {
						for _, va := range vals {
							for _, vb := range vals {
								if s[pos[a]] == va || s[pos[b]] == vb {
									continue
								}
								m := append([]byte{}, s...)
								m[pos[a]], m[pos[b]] = va, vb
								n2++
								if alive = in.handle(r, m, 0, realIdx, nil, class+"/mutant2"); !alive {
									break
								}
							}
							if !alive {
								break
							}
						}
					}
				}
			}
			r.Add("mutants_two_deviations", n2)
		}
	}
	if alive {
		// the server must still answer the probe client (nothing is wedged)
		after := in.probe(probe)
		r.Eval(fmt.Sprintf("%s/final-probe/replies=%d", class, after))
		if after < before {
			r.Violate("C01/wedged/"+chainName(c), fmt.Sprintf("the probe client was answered (%d replies) before the batch but not after it (%d)", before, after), Case{Chain: c, History: []string{hex.EncodeToString(probe)}})
		}
	}
	in.close()
	return reg.WorkerExit(r)
}

var probe4 = func() []byte {
	p := pkt.V4{Op: 1, HType: 1, HLen: 6, Xid: 0x70, Flags: 0x8000, Opts: []pkt.Opt4{{Code: 53, Data: []byte{1}}, {Code: 116, Data: []byte{1}}}}
	copy(p.CHAddr[:], []byte{2, 0, 0, 0, 0x70, 1})
	return p.Bytes()
}()

var probe6 = (pkt.Msg6{Type: 1, Xid: [3]byte{0x70, 0, 1}, Opts: []pkt.Opt6{{Code: 1, Data: []byte{0, 3, 0, 1, 2, 0, 0, 0, 0x70, 1}}, iapd(1)}}).Bytes()

// probe handles the probe datagram and returns the number of replies (-1 on panic).
func (in *instance) probe(d []byte) int {
	var out srv.Out
	if in.chain.Proto == 4 {
		out = srv.Run4(ifByIndex(realIdx), in.hs4, d, realIdx, nil)
	} else {
		srv.PrefixGate.RLock()
		out = srv.Run6(ifByIndex(realIdx), in.hs6, d, realIdx, peer6s[1])
		srv.PrefixGate.RUnlock()
	}
	if out.Panic != "" {
		return -1
	}
	return out.Replies()
}

// reduced picks n seeds spread evenly over the list.
func reduced(s [][]byte, n int) [][]byte {
	if len(s) <= n {
		return s
	}
	var out [][]byte
	for i := 0; i < n; i++ {
		out = append(out, s[i*len(s)/n])
	}
	return out
}

// mutate enumerates the complete 1-deviation closure of seed.
func mutate(seed []byte, proto int, f func([]byte) bool) {
	for cut := 0; cut < len(seed); cut++ {
		if !f(seed[:cut]) {
			return
		}
	}
	for i := 0; i < len(seed); i++ {
		for bit := 0; bit < 8; bit++ {
			m := append([]byte{}, seed...)
			m[i] ^= 1 << uint(bit)
			if !f(m) {
				return
			}
		}
		for _, v := range []byte{0x00, 0x01, 0x7f, 0x80, 0xff} {
			if seed[i] == v {
				continue
			}
			m := append([]byte{}, seed...)
			m[i] = v
			if !f(m) {
				return
			}
		}
	}
	// adjacent option swaps
	if proto == 4 && len(seed) > 240 {
		p, err := pkt.ParseV4(seed)
		if err == nil {
			for i := 0; i+1 < len(p.Opts); i++ {
				q := p
				q.Opts = append([]pkt.Opt4{}, p.Opts...)
				q.Opts[i], q.Opts[i+1] = q.Opts[i+1], q.Opts[i]
				if !f(q.Bytes()) {
					return
				}
			}
		}
	}
	if proto == 6 && len(seed) > 4 && seed[0] != 12 && seed[0] != 13 {
		opts, err := pkt.ParseOpts6(seed[4:])
		if err == nil {
			for i := 0; i+1 < len(opts); i++ {
				o := append([]pkt.Opt6{}, opts...)
				o[i], o[i+1] = o[i+1], o[i]
				if !f(append(append([]byte{}, seed[:4]...), pkt.EncOpts6(o)...)) {
					return
				}
			}
		}
	}
}

// ---------------------------------------------------------------- seeds

func seeds4() [][]byte {
	var out [][]byte
	types := []int{1, 3, 2, 4, 5, 7, 8, -1}
	hlens := []byte{0, 1, 5, 6, 8, 16, 17, 255}
	prls := [][]byte{nil, {}, {1, 3, 6, 12, 15, 26, 28, 42, 51, 54, 66, 67, 108, 116, 119, 121}}
	optsets := [][]pkt.Opt4{
		nil,
		{{Code: 82, Data: []byte{1, 2, 'c', 'i'}}, {Code: 61, Data: []byte{1, 2, 0, 0, 0, 0xa, 1}}, {Code: 12, Data: []byte("host")}, {Code: 50, Data: []byte{10, 10, 10, 101}}, {Code: 116, Data: []byte{1}}},
		{{Code: 54, Data: []byte{10, 10, 10, 1}}, {Code: 50, Data: []byte{10, 10, 10, 250}}, {Code: 12, Data: []byte{}}, {Code: 81, Data: []byte{0, 0, 0, 3, 'f', 'o', 'o', 0}}, {Code: 119, Data: []byte{3, 'c', 'o', 'm', 0}}},
		{{Code: 54, Data: []byte{192, 0, 2, 9}}, {Code: 57, Data: []byte{0, 0}}, {Code: 55, Data: []byte{108}}},
		// PXE clients: the vendor class in full, cut at every colon, and with/without option 93
		{{Code: 60, Data: []byte("PXEClient:Arch:00007:UNDI:003016")}, {Code: 93, Data: []byte{0, 7}}, {Code: 97, Data: make([]byte, 17)}},
		{{Code: 60, Data: []byte("PXEClient:Arch:00007:UNDI:003016")}},
		{{Code: 60, Data: []byte("PXEClient:Arch:00007")}, {Code: 93, Data: []byte{0}}},
		{{Code: 60, Data: []byte("PXEClient:Arch")}},
		{{Code: 60, Data: []byte("PXEClient:")}},
		{{Code: 60, Data: []byte("PXEClient")}, {Code: 93, Data: []byte{}}},
		{{Code: 60, Data: []byte("HTTPClient:Arch:00016")}, {Code: 60, Data: []byte("dup")}},
	}
	n := 0
	for _, t := range types {
		for _, hl := range hlens {
			for _, prl := range prls {
				for oi, os := range optsets {
					n++
					p := pkt.V4{Op: 1, HType: 1, HLen: hl, Xid: uint32(0x01000000 + n)}
					copy(p.CHAddr[:], []byte{2, 0, 0, 0, 0xa, byte(hl), 7, 8, 9, 10, 11, 12, 13, 14, 15, 16})
					switch n % 4 {
					case 0:
						p.Flags = 0x8000
					case 1:
						p.GI = [4]byte{10, 10, 10, 254}
					case 2:
						p.CI = [4]byte{10, 10, 10, 101}
					}
					if t >= 0 {
						p.Opts = append(p.Opts, pkt.Opt4{Code: 53, Data: []byte{byte(t)}})
					}
					if prl != nil && oi != 3 {
						p.Opts = append(p.Opts, pkt.Opt4{Code: 55, Data: prl})
					}
					p.Opts = append(p.Opts, os...)
					out = append(out, p.Bytes())
				}
			}
		}
	}
	// static client, and degenerate datagrams
	st := pkt.V4{Op: 1, HType: 1, HLen: 6, Xid: 0x5a, Opts: []pkt.Opt4{{Code: 53, Data: []byte{1}}}}
	copy(st.CHAddr[:], []byte{2, 0, 0, 0, 0x5a, 1})
	out = append(out, st.Bytes())
	// sizes the client announces and sizes it causes: maximum message size (option 57) x
	// long echoed options (client identifier, relay agent information) x cascade branch
	for _, mms := range []int{-1, 0, 68, 300, 576, 1500, 65535} {
		for _, l61 := range []int{7, 255} {
			for _, l82 := range []int{-1, 100, 255} {
				for variant := 0; variant < 3; variant++ {
					j := pkt.V4{Op: 1, HType: 1, HLen: 6, Xid: 0x39, Opts: []pkt.Opt4{{Code: 53, Data: []byte{1 + 2*byte((variant+l61)%2)}}}}
					copy(j.CHAddr[:], []byte{2, 0, 0, 0, 0x39, byte(variant)})
					switch variant {
					case 1:
						j.GI = [4]byte{10, 10, 10, 254}
					case 2:
						j.Flags = 0x8000
					}
					if mms >= 0 {
						j.Opts = append(j.Opts, pkt.Opt4{Code: 57, Data: []byte{byte(mms >> 8), byte(mms)}})
					}
					j.Opts = append(j.Opts, pkt.Opt4{Code: 61, Data: bytes.Repeat([]byte{0x43}, l61)}, pkt.Opt4{Code: 55, Data: []byte{1, 3, 6, 15, 51, 54, 119, 121}})
					if l82 >= 0 {
						j.Opts = append(j.Opts, pkt.Opt4{Code: 82, Data: append([]byte{1, byte(l82 - 2)}, bytes.Repeat([]byte{0x52}, l82-2)...)})
					}
					out = append(out, j.Bytes())
				}
			}
		}
	}
	// the largest datagrams a UDP socket can deliver (65 507 octets) and the largest the
	// receive buffer holds (65 535): filled with an option that the reply echoes (client
	// identifier / relay agent information, split over consecutive instances per RFC 3396) or
	// with one that it does not (vendor class), on every branch of the reply-destination cascade
	for _, total := range []int{65507, 65535, 32768} {
		for _, code := range []byte{61, 82, 60} {
			for variant := 0; variant < 4; variant++ {
				j := pkt.V4{Op: 1, HType: 1, HLen: 6, Xid: 0x4a, Opts: []pkt.Opt4{{Code: 53, Data: []byte{1 + 2*byte(variant%2)}}}}
				copy(j.CHAddr[:], []byte{2, 0, 0, 0, 0x4a, byte(variant)})
				switch variant {
				case 1:
					j.Flags = 0x8000
				case 2:
					j.GI = [4]byte{10, 10, 10, 254}
				case 3:
					j.CI = [4]byte{10, 10, 10, 101}
				}
				room := total - 240 - 3 - 1
				for room >= 3 {
					n := 255
					if room-2 < n {
						n = room - 2
					}
					j.Opts = append(j.Opts, pkt.Opt4{Code: code, Data: bytes.Repeat([]byte{0x41}, n)})
					room -= n + 2
				}
				out = append(out, j.Bytes())
			}
		}
	}
	return out
}

func shortStrings() [][]byte {
	out := [][]byte{{}}
	for a := 0; a < 256; a++ {
		out = append(out, []byte{byte(a)})
	}
	for a := 0; a < 256; a++ {
		for _, b := range []byte{0, 1, 12, 13, 0x7f, 0xff} {
			out = append(out, []byte{byte(a), b})
		}
	}
	return out
}

func iapd(iaid uint32, prefixes ...[]byte) pkt.Opt6 {
	d := binary.BigEndian.AppendUint32(nil, iaid)
	d = append(d, 0, 0, 0, 0, 0, 0, 0, 0)
	for _, p := range prefixes {
		d = append(d, pkt.EncOpts6([]pkt.Opt6{{Code: 26, Data: p}})...)
	}
	return pkt.Opt6{Code: 25, Data: d}
}

func iaprefix(cidr string, plen int) []byte {
	ip := net.ParseIP(cidr).To16()
	return append([]byte{0, 0, 0x0e, 0x10, 0, 0, 0x1c, 0x20, byte(plen)}, ip...)
}

func seeds6() [][]byte {
	var out [][]byte
	cids := [][]byte{
		nil,
		{0, 3, 0, 1, 2, 0, 0, 0, 0xa, 1},
		{0, 1, 0, 1, 0x2a, 0, 0, 1, 2, 0, 0, 0, 0xb, 2},
		{0, 2, 0, 0, 0x9, 0xbf, 1, 2, 3},
		append([]byte{0, 4}, make([]byte, 16)...),
		{0, 3},
		{0xff},
		{0, 3, 0, 1, 2, 0, 0, 0, 0x5a, 1}, // the static client
	}
	optsets := [][]pkt.Opt6{
		nil,
		{{Code: 3, Data: []byte{0, 0, 0, 9, 0, 0, 0, 0, 0, 0, 0, 0}}, {Code: 6, Data: []byte{0, 23, 0, 24, 0, 59, 0, 60}}},
		{iapd(1)},
		{iapd(1, iaprefix("::", 0))},
		{iapd(1, iaprefix("::", 64))},
		{iapd(1, iaprefix("::", 56))},
		{iapd(1, iaprefix("2001:db8:0:11::", 64))},
		{iapd(1, iaprefix("2001:db8:ffff::", 64))},
		{iapd(1, iaprefix("2001:db8:0:12::", 72))},
		{iapd(1, iaprefix("::ffff:10.1.0.0", 112))},
		{iapd(1, iaprefix("2001:db8:0:10::", 64), iaprefix("2001:db8:0:13::", 64)), iapd(2)},
		{iapd(1, iaprefix("::", 255))},
		{{Code: 14}, {Code: 2, Data: []byte{0, 3, 0, 1, 0, 0xde, 0xad, 0xbe, 0xef, 0}}, iapd(3)},
		{{Code: 2, Data: []byte{0, 3, 0, 1, 9, 9, 9, 9, 9, 9}}, {Code: 25, Data: []byte{0, 0}}, {Code: 3, Data: []byte{1}}},
		{{Code: 6, Data: []byte{0}}, {Code: 24, Data: []byte{0xc0, 0}}, {Code: 39, Data: []byte{0, 3, 'a', 0xc0}}, {Code: 16, Data: []byte{0, 0, 0}}},
	}
	types := []byte{1, 2, 3, 4, 5, 6, 7, 8, 9, 10, 11, 0, 14, 36, 200, 255}
	n := 0
	for _, t := range types {
		for _, cid := range cids {
			for _, os := range optsets {
				n++
				m := pkt.Msg6{Type: t, Xid: [3]byte{byte(n >> 16), byte(n >> 8), byte(n)}}
				if cid != nil {
					m.Opts = append(m.Opts, pkt.Opt6{Code: 1, Data: cid})
				}
				m.Opts = append(m.Opts, os...)
				b := m.Bytes()
				depth := []int{0, 0, 0, 1, 2, 4}[n%6]
				for i := 0; i < depth; i++ {
					l := pkt.Relay6{Type: 12, Hop: byte(i), Inner: b}
					l.Link[0], l.Peer[0], l.Peer[1] = 0x20, 0xfe, 0x80
					switch (n + i) % 3 {
					case 1:
						l.Opts = []pkt.Opt6{{Code: 18, Data: []byte("if")}}
					case 2:
						l.After = []pkt.Opt6{{Code: 79, Data: []byte{0, 1, 2, 0, 0, 0, 0x5a, 1}}, {Code: 37, Data: []byte{0, 0, 9, 0xbf, 1}}}
					}
					b = l.Bytes()
				}
				out = append(out, b)
			}
		}
	}
	// deep relay nesting: 32 layers and the deepest that fits a 65535-byte datagram
	inner := (pkt.Msg6{Type: 1, Xid: [3]byte{1, 2, 3}, Opts: []pkt.Opt6{{Code: 1, Data: cids[1]}, iapd(1)}}).Bytes()
	for _, depth := range []int{32, (65535 - len(inner)) / 38} {
		b := inner
		for i := 0; i < depth; i++ {
			b = (pkt.Relay6{Type: 12, Inner: b}).Bytes()
		}
		out = append(out, b)
	}
	// relay without relay-message option, relay-reply, relay whose inner is a relay-typed stub
	out = append(out, (pkt.Relay6{Type: 12}).Bytes(), (pkt.Relay6{Type: 13, Inner: inner}).Bytes(), (pkt.Relay6{Type: 12, Inner: []byte{12}}).Bytes(), (pkt.Relay6{Type: 12, Inner: []byte{}}).Bytes())
	return out
}

// ---------------------------------------------------------------- histories (E1)

func histories(r *ev.Run, proto int, thorough bool) {
	depth := 2
	if thorough {
		depth = 3
	}
	var alpha [][]byte
	var c Chain
	if proto == 4 {
		c = Chain{Proto: 4, Mode: "histories", Items: []Item{{Plugin: "server_id"}, {Plugin: "range"}, {Plugin: "dns"}}}
		for _, mt := range []byte{1, 3} {
			for _, mac := range [][]byte{{2, 0, 0, 0, 0xa, 1}, {2, 0, 0, 0, 0xb, 2}, {2, 0, 0, 0, 0xc}, {}, {2, 0, 0, 0, 0xd, 4, 5, 6, 7, 8, 9, 10, 11, 12, 13, 14}} {
				for _, host := range []string{"", "1e3"} {
					p := pkt.V4{Op: 1, HType: 1, HLen: byte(len(mac)), Xid: 0x77, Flags: 0x8000, Opts: []pkt.Opt4{{Code: 53, Data: []byte{mt}}}}
					copy(p.CHAddr[:], mac)
					if host != "" {
						p.Opts = append(p.Opts, pkt.Opt4{Code: 12, Data: []byte(host)})
					}
					alpha = append(alpha, p.Bytes())
				}
			}
		}
	} else {
		c = Chain{Proto: 6, Mode: "histories", Items: []Item{{Plugin: "server_id"}, {Plugin: "file"}, {Plugin: "prefix"}, {Plugin: "dns"}}}
		hints := [][]pkt.Opt6{
			{iapd(1)}, {iapd(1, iaprefix("::", 0))}, {iapd(1, iaprefix("::", 64))}, {iapd(1, iaprefix("2001:db8:0:11::", 64))},
			{iapd(1, iaprefix("2001:db8:ffff::", 64))}, {iapd(1, iaprefix("2001:db8:0:12::", 72))}, {iapd(1, iaprefix("::ffff:10.1.0.0", 112))},
			{iapd(1, iaprefix("::", 0), iaprefix("::", 0)), iapd(2)}, {{Code: 3, Data: []byte{0, 0, 0, 9, 0, 0, 0, 0, 0, 0, 0, 0}}},
		}
		for _, mt := range []byte{1, 3, 5} {
			for _, cid := range [][]byte{{0, 3, 0, 1, 2, 0, 0, 0, 0xa, 1}, {0, 3, 0, 1, 2, 0, 0, 0, 0xb, 2}, {0xff}} {
				for _, h := range hints {
					m := pkt.Msg6{Type: mt, Xid: [3]byte{7, 7, mt}, Opts: []pkt.Opt6{{Code: 1, Data: cid}}}
					if mt != 1 {
						m.Opts = append(m.Opts, pkt.Opt6{Code: 2, Data: []byte{0, 3, 0, 1, 0, 0xde, 0xad, 0xbe, 0xef, 0}})
					}
					m.Opts = append(m.Opts, h...)
					alpha = append(alpha, m.Bytes())
				}
			}
		}
	}
	r.Set(fmt.Sprintf("history_alphabet_v%d", proto), int64(len(alpha)))
	idx := make([]int, depth)
	var seqs int64
	for {
		in, err := build(c)
		if err != nil {
			panic(err)
		}
		var hist []string
		for k := 0; k < depth; k++ {
			if !in.handle(r, alpha[idx[k]], 0, realIdx, hist, fmt.Sprintf("history/v%d/step%d", proto, k+1)) {
				break
			}
			hist = append(hist, hex.EncodeToString(alpha[idx[k]]))
		}
		in.close()
		seqs++
		// next tuple
		k := depth - 1
		for k >= 0 {
			idx[k]++
			if idx[k] < len(alpha) {
				break
			}
			idx[k] = 0
			k--
		}
		if k < 0 {
			break
		}
	}
	r.Add("history_sequences", seqs)
	r.AddGraph(0, 0, 0)
}

func replay(r *ev.Run, raw json.RawMessage) {
	var wrap struct {
		Case *Case `json:"case"`
	}
	var c Case
	if json.Unmarshal(raw, &wrap) == nil && wrap.Case != nil {
		c = *wrap.Case
	} else if err := json.Unmarshal(raw, &c); err != nil {
		r.Violate("C01/replay/bad-file", err.Error(), nil)
		return
	}
	var probe map[string]json.RawMessage
	json.Unmarshal(raw, &probe)
	if probe["pool"] != nil {
		pd.Replay(r, "C01", raw)
		return
	}
	if probe["config"] != nil && probe["history"] != nil {
		lease.Replay(r, "C01", raw)
		return
	}
	if len(c.History) == 0 {
		// chain-level finding (process died / hang): re-run the chain
		b, _ := json.Marshal(c.Chain)
		res := reg.Spawn(r, "C01", 40*time.Minute, string(b))
		if res.Died || res.Hung {
			r.Violate("C01/process-died/"+chainName(c.Chain), lastLines(res.Output), c)
		}
		return
	}
	b, _ := json.Marshal(c)
	arg := string(b)
	if len(arg) > 60000 {
		// a single argv string is limited to 128 KiB: hand large cases over in a file
		f := filepath.Join(srv.Scratch(), "c01-replay-case.json")
		if err := os.WriteFile(f, b, 0o644); err != nil {
			panic(err)
		}
		arg = "@" + f
	}
	res := reg.Spawn(r, "C01", 5*time.Minute, `{"proto":0,"mode":"replay"}`, arg)
	if res.Died || res.Hung {
		r.Violate("C01/process-died/replay", lastLines(res.Output), c)
	}
	_ = sort.Strings
}

// flood: thousands of worthless datagrams through ONE real Serve loop (empty, one byte, garbage,
// each kind 4300 times - beyond any per-process budget of a few thousand), then a well-formed
// request: it is still answered. The loop runs under the cooperative scheduler (default
// schedule) inside the operation watchdog: a receive loop that stops reading is a hang.
func flood(r *ev.Run, proto int) {
	if !srv.Instrumented() {
		r.Capped("flood scenario skipped: binary not built with the instrumentation overlay")
		return
	}
	probe := probe4
	if proto == 6 {
		probe = probe6
	}
	for _, junk := range [][]byte{{}, {0x01}, {0xff, 0xff, 0xff, 0xff}, probe[:len(probe)/2]} {
		var dgrams [][]byte
		for i := 0; i < 4300; i++ {
			dgrams = append(dgrams, junk)
		}
		dgrams = append(dgrams, probe)
		c := Case{Chain: Chain{Proto: proto, Mode: "flood"}, Oob: 1, History: []string{fmt.Sprintf("(4300 x %x)", junk), hex.EncodeToString(probe)}}
		curMu.Lock()
		curCase, curAt = &c, time.Now()
		curMu.Unlock()
		var out srv.Out
		if proto == 4 {
			out = srv.Serve4(net.Interface{}, nil, dgrams, 1)
		} else {
			out = srv.Serve6(net.Interface{}, nil, dgrams, 1, &net.UDPAddr{IP: net.ParseIP("2001:db8::99"), Port: 546})
		}
		curMu.Lock()
		curCase = nil
		curMu.Unlock()
		cl := fmt.Sprintf("flood/v%d/junk-len=%d/replies=%d", proto, len(junk), out.Replies())
		r.Eval(cl)
		if out.Panic != "" {
			r.Violate("C01/flood/panic", fmt.Sprintf("DHCPv%d Serve loop fed 4300 datagrams %x and one request: %s", proto, junk, firstLine(out.Panic)), c)
			continue
		}
		if out.Replies() < 1 {
			r.Violate("C01/flood/request-unanswered-after-junk", fmt.Sprintf("DHCPv%d Serve loop: after 4300 datagrams %x a well-formed request was not answered any more", proto, junk), c)
		}
	}
}
