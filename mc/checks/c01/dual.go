package c01

// Both protocol servers in one process (the usual deployment): the two real Serve loops run as
// threads of one controlled execution and share whatever the server package shares between
// them (buffer pools, ...). A few datagrams for each, all schedules up to the preemption bound:
// no thread may panic, nothing may deadlock, every well-formed request is answered.

import (
	"fmt"
	"net"
	"os"
	"time"

	"github.com/coredhcp/coredhcp/server"

	"verifmc/checks/alloc"
	"verifmc/conc"
	"verifmc/ev"
	"verifmc/sched"
	"verifmc/verifsched"
)

func dualStackServe(r *ev.Run) {
	if os.Getenv("VERIF_SCHED") != "1" {
		r.Capped("dual-stack Serve scenario skipped: binary not built with the instrumentation overlay")
		return
	}
	a, b := []byte{2, 0, 0, 0, 0xd, 1}, []byte{2, 0, 0, 0, 0xd, 2}
	type order struct {
		name   string
		v6, v4 [][]byte
	}
	orders := []order{
		{"two-solicits+two-discovers", [][]byte{conc.Solicit6(a, [3]byte{0xd, 0, 1}, false, true, ""), conc.Solicit6(b, [3]byte{0xd, 0, 2}, true, false, "")}, [][]byte{conc.Discover4(a, 0xd001, nil), conc.Request4(b, 0xd002, nil)}},
		{"garbage-v6+discover", [][]byte{{0x01}, {0xff, 0, 0, 0}}, [][]byte{conc.Discover4(a, 0xd003, []byte{1, 3, 6})}},
	}
	for _, o := range orders {
		o := o
		sc := sched.Scenario{Name: "dual-stack/" + o.name, Setup: func(run *verifsched.Run) func(*verifsched.Run) sched.Exec {
			var sent4, sent6 int
			feed := func(dgrams [][]byte, peer *net.UDPAddr) func(b []byte) (int, int, *net.UDPAddr, bool) {
				i := 0
				return func(buf []byte) (int, int, *net.UDPAddr, bool) {
					if i >= len(dgrams) {
						return 0, 0, nil, false
					}
					d := dgrams[i]
					i++
					return copy(buf, d), 1, peer, true
				}
			}
			l6 := server.NewVerifListener6(net.Interface{}, nil, &server.VerifIO{Sent: func(server.VerifSent) { sent6++ }, Recv: feed(o.v6, &net.UDPAddr{IP: net.ParseIP("2001:db8::99"), Port: 546})})
			l4 := server.NewVerifListener4(net.Interface{}, nil, &server.VerifIO{Sent: func(server.VerifSent) { sent4++ }, Recv: feed(o.v4, &net.UDPAddr{IP: net.IPv4(10, 9, 9, 9), Port: 68})})
			server.VerifSetFrameSink(func(server.VerifFrame) { sent4++ })
			run.Spawn("serve6", func() { l6.Serve() })
			run.Spawn("serve4", func() { l4.Serve() })
			return func(*verifsched.Run) sched.Exec {
				server.VerifSetFrameSink(nil)
				l4.Release()
				l6.Release()
				return sched.Exec{Outcome: fmt.Sprintf("v6 replies=%d v4 replies=%d", sent6, sent4)}
			}
		}}
		bound, budget := 1, 60*time.Second
		if !r.Quick() {
			bound, budget = 2, 5*time.Minute
		}
		res := sched.Explore(sc, bound, budget)
		alloc.ReportSched(r, "C01", res, map[string]interface{}{"v6_datagrams": len(o.v6), "v4_datagrams": len(o.v4)})
	}
}
