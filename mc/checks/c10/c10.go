// Package c10: static lease file - served mapping equals the file, updates all-or-nothing.
// E3 over all short lease files, E1 over the autorefresh event graph (reload = hook H5, the
// body of the watcher loop), dual-stack configurations, and a binding run with the real watcher.
package c10

import (
	"encoding/json"
	"fmt"
	"net"
	"os"
	"path/filepath"
	"sort"
	"strings"
	"sync"
	"time"

	"github.com/coredhcp/coredhcp/handler"
	"github.com/coredhcp/coredhcp/plugins/file"
	"github.com/insomniacslk/dhcp/dhcpv4"
	"github.com/insomniacslk/dhcp/dhcpv6"

	"verifmc/ev"
	"verifmc/explore"
	"verifmc/pkt"
	"verifmc/reg"
	"verifmc/srv"
)

func init() {
	reg.Register(&reg.Check{ID: "C10", Level: "model_checking", Run: run, Replay: replay, Worker: func(a []string) int {
		r := ev.New("C10", reg.Tier, "model_checking")
		if len(a) == 2 && a[0] == "spelling" {
			spellingWorker(r, a[1])
		}
		return reg.WorkerExit(r)
	}})
}

// line is one entry of the line alphabet with its meaning per protocol.
type line struct {
	text   string
	mac    string // canonical MAC (hex) if a valid mapping line
	ip     string
	fam    int  // 4 / 6: family of the address; 0 = not a mapping line
	bad    bool // malformed for every protocol
	silent bool // statement does not say
}

var macA, macB, macC = "02:00:00:00:0a:01", "02:00:00:00:0b:02", "02:00:00:00:0c:03"
var mac8 = "02:00:00:00:0a:01:ff:fe"

var lines = []line{
	{text: macA + " 10.0.0.1", mac: macA, ip: "10.0.0.1", fam: 4},
	{text: "02-00-00-00-0b-02   10.0.0.2", mac: macB, ip: "10.0.0.2", fam: 4},
	{text: "0200.0000.0a01\t10.0.0.9", mac: macA, ip: "10.0.0.9", fam: 4}, // duplicate of A, other address, dotted spelling, tab
	{text: mac8 + " 10.0.0.8", mac: mac8, ip: "10.0.0.8", fam: 4},
	{text: macA + " 2001:db8::1", mac: macA, ip: "2001:db8::1", fam: 6},
	{text: "02-00-00-00-0B-02 2001:DB8:0:0::2", mac: macB, ip: "2001:db8::2", fam: 6},
	{text: "0200.0000.0a01 2001:db8::9", mac: macA, ip: "2001:db8::9", fam: 6},
	{text: "# " + macC + " 10.0.0.3"},
	{text: "#" + strings.Repeat("x", 70000)}, // a comment line longer than 64 KiB
	{text: ""},
	{text: macC, bad: true},
	{text: macC + " 10.0.0.3 extra", bad: true},
	{text: "zz:00:00:00:00:01 10.0.0.3", bad: true},
	{text: macC + " 10.0.0.300", bad: true},
	{text: macC + " ::ffff:10.0.0.7", silent: true},
	{text: "  " + macC + " 10.0.0.3", silent: true}, // leading blanks
	{text: " ", silent: true},                       // whitespace-only line
}

// parseRef is the reference parser written from the statement.
func parseRef(content string, proto int) (tbl map[string]string, ok, silent bool) {
	tbl = map[string]string{}
	ok = true
	for _, l := range strings.Split(content, "\n") {
		found := false
		for _, a := range lines {
			if a.text == l {
				found = true
				switch {
				case a.silent:
					silent = true
				case a.bad:
					ok = false
				case a.fam == 0:
				case a.fam != proto:
					ok = false
				default:
					tbl[a.mac] = a.ip
				}
				break
			}
		}
		if !found {
			// generated lines of the plain form "aa:bb:cc:dd:ee:ff address" (many-entries files)
			f := strings.Fields(l)
			m, merr := net.ParseMAC(f[0])
			if len(f) != 2 || merr != nil || len(m) != 6 || f[0] != m.String() || strings.Join(f, " ") != l {
				panic("line not in alphabet: " + l)
			}
			ip := net.ParseIP(f[1])
			switch {
			case ip == nil:
				panic("line not in alphabet: " + l)
			case (ip.To4() != nil) != (proto == 4):
				ok = false
			default:
				tbl[f[0]] = ip.String()
			}
		}
	}
	return
}

func hw(s string) net.HardwareAddr { m, _ := net.ParseMAC(s); return m }

// lookup4 asks the real DHCPv4 handler about mac.
func lookup4(h handler.Handler4, mac string) (ip string, stop bool, pan string) {
	return lookup4cid(h, mac, nil)
}

// lookup4cid: a request from hardware address mac that also carries the client identifier cid
// (option 61): the mapping served is the one of the hardware address.
func lookup4cid(h handler.Handler4, mac string, cid []byte) (ip string, stop bool, pan string) {
	defer func() {
		if e := recover(); e != nil {
			pan = fmt.Sprint(e)
		}
	}()
	defer reg.OpBegin("static lease lookup for " + mac)()
	p := pkt.V4{Op: 1, HType: 1, HLen: byte(len(hw(mac))), Xid: 0x10101010, Opts: []pkt.Opt4{{Code: 53, Data: []byte{1}}}}
	if cid != nil {
		p.Opts = append(p.Opts, pkt.Opt4{Code: 61, Data: cid})
	}
	copy(p.CHAddr[:], hw(mac))
	req, err := dhcpv4.FromBytes(p.Bytes())
	if err != nil {
		panic(err)
	}
	resp, _ := dhcpv4.NewReplyFromRequest(req)
	out, stop := h(req, resp)
	if out == nil {
		return "nil", stop, ""
	}
	if out.YourIPAddr == nil || out.YourIPAddr.IsUnspecified() {
		return "", stop, ""
	}
	return out.YourIPAddr.String(), stop, ""
}

// req6 builds a SOLICIT identifying the client by one of four mechanisms.
func req6(mac string, how string, iana bool) []byte {
	m := hw(mac)
	var cid []byte
	switch how {
	case "duid-llt":
		cid = append([]byte{0, 1, 0, 1, 0x2a, 0, 0, 1}, m...)
	case "duid-ll":
		cid = append([]byte{0, 3, 0, 1}, m...)
	default:
		cid = []byte{0, 2, 0, 0, 0x9, 0xbf, 9, 9} // DUID-EN: no MAC inside
	}
	msg := pkt.Msg6{Type: 1, Xid: [3]byte{0x10, 0, 1}, Opts: []pkt.Opt6{{Code: 1, Data: cid}}}
	if iana {
		msg.Opts = append(msg.Opts, pkt.Opt6{Code: 3, Data: []byte{0xaa, 0xbb, 0xcc, 0xdd, 0, 0, 0, 0, 0, 0, 0, 0}})
	}
	b := msg.Bytes()
	switch how {
	case "relay-opt79":
		l := pkt.Relay6{Type: 12, Inner: b, After: []pkt.Opt6{{Code: 79, Data: append([]byte{0, 1}, m...)}}}
		l.Link[0], l.Peer[0], l.Peer[1] = 0x20, 0xfe, 0x80
		b = l.Bytes()
	case "relay-eui64":
		l := pkt.Relay6{Type: 12, Inner: b}
		l.Link[0] = 0x20
		copy(l.Peer[:], []byte{0xfe, 0x80, 0, 0, 0, 0, 0, 0, m[0] ^ 2, m[1], m[2], 0xff, 0xfe, m[3], m[4], m[5]})
		b = l.Bytes()
	}
	return b
}

// lookup6 asks the real DHCPv6 handler; returns the IA_NA address ("" if none).
func lookup6(h handler.Handler6, mac, how string, iana bool) (ip string, iaid string, nopts int, pan string) {
	defer func() {
		if e := recover(); e != nil {
			pan = fmt.Sprint(e)
		}
	}()
	req, err := dhcpv6.FromBytes(req6(mac, how, iana))
	if err != nil {
		panic(err)
	}
	inner, _ := req.GetInnerMessage()
	resp, err := dhcpv6.NewAdvertiseFromSolicit(inner)
	if err != nil {
		panic(err)
	}
	out, _ := h(req, resp)
	if out == nil {
		return "nil", "", 0, ""
	}
	p, err := pkt.Parse6(out.ToBytes())
	if err != nil {
		return "unparseable", "", 0, ""
	}
	for _, o := range p.Msg.Opts {
		if o.Code == 3 {
			nopts++
			if len(o.Data) >= 12 {
				iaid = fmt.Sprintf("%x", o.Data[:4])
				sub, _ := pkt.ParseOpts6(o.Data[12:])
				if a, n := pkt.Get6(sub, 5); n > 0 && len(a) >= 16 {
					ip = net.IP(a[:16]).String()
				}
			}
		}
	}
	return
}

type FileCase struct {
	Proto   int    `json:"proto"`
	Content string `json:"file_content"`
}

var probeMACs = []string{macA, macB, macC, mac8, "02:00:00:00:ff:ff"}

// checkServed compares what the handler serves with want (mac -> ip).
func checkServed(r *ev.Run, proto int, h4 handler.Handler4, h6 handler.Handler6, want map[string]string, sigPrefix string, c interface{}) bool {
	ok := true
	for _, m := range probeMACs {
		if proto == 4 {
			ip, stop, pan := lookup4(h4, m)
			if pan != "" {
				r.Violate(sigPrefix+"/panic", "lookup panicked: "+pan, c)
				return false
			}
			w, listed := want[m]
			switch {
			case listed && (ip != w || !stop):
				r.Violate(sigPrefix+"/v4-wrong-answer", fmt.Sprintf("MAC %s: yiaddr=%q stop=%v, file says %s (and the chain must end)", m, ip, stop, w), c)
				ok = false
			case !listed && (ip != "" || stop):
				r.Violate(sigPrefix+"/v4-unlisted-served", fmt.Sprintf("MAC %s is not in the file but got yiaddr=%q stop=%v", m, ip, stop), c)
				ok = false
			}
			// the same request carrying a client identifier that spells ANOTHER probe MAC
			// (htype 1 + address, RFC 2132 9.14) or something opaque: still keyed by chaddr
			for _, o := range probeMACs {
				if o == m || len(hw(o)) != 6 || !ok {
					continue
				}
				for _, cid := range [][]byte{append([]byte{1}, hw(o)...), append([]byte{0}, []byte("opaque-"+o)...)} {
					ip2, stop2, pan2 := lookup4cid(h4, m, cid)
					if pan2 != "" || ip2 != ip || stop2 != stop {
						r.Violate(sigPrefix+"/v4-keyed-by-client-identifier", fmt.Sprintf("MAC %s with client identifier %x: yiaddr=%q stop=%v panic=%q; without it yiaddr=%q stop=%v", m, cid, ip2, stop2, pan2, ip, stop), c)
						ok = false
					}
				}
			}
		} else {
			if len(hw(m)) != 6 {
				continue
			}
			for _, how := range []string{"duid-ll", "duid-llt", "relay-opt79", "relay-eui64"} {
				for _, iana := range []bool{true, false} {
					ip, iaid, n, pan := lookup6(h6, m, how, iana)
					if pan != "" {
						r.Violate(sigPrefix+"/panic", "lookup panicked: "+pan, c)
						return false
					}
					w, listed := want[m]
					switch {
					case !iana && n != 0:
						r.Violate(sigPrefix+"/v6-ia-na-unrequested", fmt.Sprintf("MAC %s (%s): IA_NA in the reply although none was requested", m, how), c)
						ok = false
					case iana && listed && (ip != w || n != 1 || iaid != "aabbccdd"):
						r.Violate(sigPrefix+"/v6-wrong-answer", fmt.Sprintf("MAC %s (%s): IA_NA x%d address=%q iaid=%s, file says %s", m, how, n, ip, iaid, w), c)
						ok = false
					case iana && !listed && n != 0:
						r.Violate(sigPrefix+"/v6-unlisted-served", fmt.Sprintf("MAC %s (%s) is not in the file but got address %q", m, how, ip), c)
						ok = false
					}
				}
			}
		}
	}
	return ok
}

func setup(proto int, args ...string) (handler.Handler4, handler.Handler6, error) {
	if proto == 4 {
		h, err := file.Plugin.Setup4(args...)
		return h, nil, err
	}
	h, err := file.Plugin.Setup6(args...)
	return nil, h, err
}

func evalFile(r *ev.Run, c FileCase) {
	f := filepath.Join(srv.Scratch(), "c10-static.txt")
	os.WriteFile(f, []byte(c.Content), 0o644)
	want, ok, silent := parseRef(c.Content, c.Proto)
	var h4 handler.Handler4
	var h6 handler.Handler6
	var err error
	pan := func() (p string) {
		defer func() {
			if e := recover(); e != nil {
				p = fmt.Sprint(e)
			}
		}()
		h4, h6, err = setup(c.Proto, f)
		return
	}()
	class := fmt.Sprintf("file/v%d/lines=%d", c.Proto, strings.Count(c.Content, "\n")+1)
	defer func() { r.Eval(class); r.Sample(class, c) }()
	if pan != "" {
		r.Violate("C10/file/setup-panic", pan, c)
		return
	}
	if silent {
		class += "/not-asserted"
		return
	}
	if (err == nil) != ok {
		if ok {
			r.Violate("C10/file/valid-file-rejected", "well-formed file rejected: "+err.Error(), c)
		} else {
			r.Violate("C10/file/malformed-file-accepted", "file with a malformed line was accepted", c)
		}
		return
	}
	if err != nil {
		class += "/rejected"
		return
	}
	class += fmt.Sprintf("/accepted-%d-entries", len(want))
	checkServed(r, c.Proto, h4, h6, want, "C10/file", c)
}

// ---- autorefresh graph (E1) ----

type RefOp struct {
	Kind    string `json:"kind"`              // "write" | "reload"
	Content string `json:"content,omitempty"` // name of the content
}

var contents = map[int]map[string]string{
	4: {"good1": macA + " 10.0.0.1\n" + macB + " 10.0.0.2", "good2": macA + " 10.0.0.9\n" + macC + " 10.0.0.3", "bad": macA + " 10.0.0.1\n" + macB, "empty": "", "wrongfam": macA + " 2001:db8::1"},
	6: {"good1": macA + " 2001:db8::1\n" + macB + " 2001:db8::2", "good2": macA + " 2001:db8::9\n" + macC + " 2001:db8::3", "bad": macA + " 2001:db8::1\n" + macB, "empty": "", "wrongfam": macA + " 10.0.0.1"},
}

var goodTables = map[int]map[string]map[string]string{
	4: {"good1": {macA: "10.0.0.1", macB: "10.0.0.2"}, "good2": {macA: "10.0.0.9", macC: "10.0.0.3"}, "empty": {}},
	6: {"good1": {macA: "2001:db8::1", macB: "2001:db8::2"}, "good2": {macA: "2001:db8::9", macC: "2001:db8::3"}, "empty": {}},
}

type RefCase struct {
	Proto int     `json:"proto"`
	Hist  []RefOp `json:"history"`
}

type refSys struct {
	r      *ev.Run
	proto  int
	path   string
	h4     handler.Handler4
	h6     handler.Handler6
	onDisk string            // content name
	served map[string]string // ghost: mapping that must be in force
	hist   []RefOp
}

var fixedTime = time.Unix(1700000000, 0)

func newRefSys(r *ev.Run, proto int) *refSys {
	s := &refSys{r: r, proto: proto, path: filepath.Join(srv.Scratch(), fmt.Sprintf("c10-refresh-%d.txt", proto)), onDisk: "good1"}
	os.WriteFile(s.path, []byte(contents[proto]["good1"]), 0o644)
	os.Chtimes(s.path, fixedTime, fixedTime)
	var err error
	s.h4, s.h6, err = setup(proto, s.path) // watcher replaced by explicit reload events
	if err != nil {
		panic(err)
	}
	s.served = goodTables[proto]["good1"]
	return s
}

func (s *refSys) Close() {}
func (s *refSys) Ops() []RefOp {
	ops := []RefOp{{Kind: "reload"}}
	for _, c := range []string{"good1", "good2", "bad", "empty", "wrongfam"} {
		ops = append(ops, RefOp{"write", c})
	}
	return ops
}

func tblKey(t map[string]string) string {
	var ks []string
	for k, v := range t {
		ks = append(ks, k+"="+v)
	}
	sort.Strings(ks)
	return strings.Join(ks, ",")
}

func (s *refSys) Key() string {
	return fmt.Sprintf("disk=%s impl={%s} ghost={%s}", s.onDisk, tblKey(file.VerifTable()), tblKey(s.served))
}

func (s *refSys) Apply(op RefOp, live bool) string {
	s.hist = append(s.hist, op)
	c := RefCase{s.proto, append([]RefOp{}, s.hist...)}
	switch op.Kind {
	case "write":
		os.WriteFile(s.path, []byte(contents[s.proto][op.Content]), 0o644)
		// the file system's timestamp granularity belongs to the environment: model the
		// coarsest one (every rewrite lands in the same tick; good1 and good2 have the same size)
		os.Chtimes(s.path, fixedTime, fixedTime)
		s.onDisk = op.Content
	case "reload":
		err := file.VerifReload(s.proto == 6, s.path)
		if t, good := goodTables[s.proto][s.onDisk]; good {
			s.served = t
			if err != nil && live {
				s.r.Violate("C10/refresh/good-update-rejected", "reload of a well-formed file failed: "+err.Error(), c)
			}
		} else if err == nil && live {
			s.r.Violate("C10/refresh/bad-update-accepted", "reload of a malformed file reported success", c)
		}
	}
	// the mapping in force must be exactly the ghost
	ok := true
	if live {
		ok = checkServed(s.r, s.proto, s.h4, s.h6, s.served, "C10/refresh", c)
		cl := fmt.Sprintf("refresh/v%d/%s/disk=%s/serving=%d-entries", s.proto, op.Kind, s.onDisk, len(s.served))
		s.r.Eval(cl)
		s.r.Sample(cl, c)
	}
	return fmt.Sprintf("%s ok=%v", op.Kind, ok)
}

// ---- dual stack ----

type DualCase struct {
	Order       []int `json:"setup_order"`
	Autorefresh bool  `json:"autorefresh"`
	RefreshV6   bool  `json:"then_reload_v6_file"`
}

func evalDual(r *ev.Run, c DualCase) {
	f4 := filepath.Join(srv.Scratch(), "c10-dual4.txt")
	f6 := filepath.Join(srv.Scratch(), "c10-dual6.txt")
	os.WriteFile(f4, []byte(contents[4]["good1"]), 0o644)
	os.WriteFile(f6, []byte(contents[6]["good2"]), 0o644)
	var h4 handler.Handler4
	var h6 handler.Handler6
	for _, proto := range c.Order {
		args := []string{map[int]string{4: f4, 6: f6}[proto]}
		a, b, err := setup(proto, args...)
		if err != nil {
			r.Violate("C10/dual-stack/setup-failed", err.Error(), c)
			return
		}
		if proto == 4 {
			h4 = a
		} else {
			h6 = b
		}
	}
	if c.RefreshV6 {
		// what the v6 instance's watcher does when its file is touched
		if err := file.VerifReload(true, f6); err != nil {
			r.Violate("C10/dual-stack/reload-failed", err.Error(), c)
		}
	}
	class := fmt.Sprintf("dual-stack/order=%v/reload6=%v", c.Order, c.RefreshV6)
	r.Eval(class)
	r.Sample(class, c)
	// each instance must serve from its own file
	checkServed(r, 4, h4, nil, goodTables[4]["good1"], "C10/dual-stack/v4-instance", c)
	checkServed(r, 6, nil, h6, goodTables[6]["good2"], "C10/dual-stack/v6-instance", c)
}

func run(r *ev.Run) {
	maxLines := 3
	if !r.Quick() {
		maxLines = 4
	}
	r.Rule(fmt.Sprintf("(a) E3: every lease file of 0..%d lines over a %d-line alphabet (every MAC spelling ParseMAC accepts incl. 8-byte, IPv4/IPv6 spellings, duplicate MAC, comment, blank, one of each malformation) x {v4, v6}: Setup errs iff the reference parser rejects, else every probe MAC (listed, unlisted, 8-byte) is looked up through the real handler (v6: DUID-LL, DUID-LLT, relay option 79, EUI-64 peer; with and without IA_NA). (b) E1: BFS to fixpoint over {write(good1|good2|bad|empty|wrong-family), reload} where reload is the body of the autorefresh watcher loop (hook H5); after every event the served mapping must equal the ghost (last well-formed content reloaded). (c) dual-stack: both setup orders, with a v6 reload afterwards. Class = part/shape/outcome.", maxLines, len(lines)))
	r.Assume("inotify delivery is not modelled: 'eventually' is reduced to 'every reload event installs parse(content) or leaves the table unchanged' plus the code fact that the watcher reloads on every event; whitespace-only / indented lines and v4-mapped addresses are not asserted")
	// (a)
	var rec func(cur []string)
	n := 0
	rec = func(cur []string) {
		for _, proto := range []int{4, 6} {
			evalFile(r, FileCase{proto, strings.Join(cur, "\n")})
			n++
		}
		if len(cur) == maxLines {
			return
		}
		for _, l := range lines {
			rec(append(cur, l.text))
		}
	}
	rec(nil)
	r.Add("files", int64(n))
	// many entries: N hosts in ascending order plus one line that lists an earlier host again
	// (the last occurrence wins), for every N up to 40 and three positions of the repeated host
	for _, proto := range []int{4, 6} {
		for nHosts := 2; nHosts <= 40; nHosts++ {
			for _, which := range []int{0, nHosts / 2, nHosts - 1} {
				var sb strings.Builder
				for i := 0; i < nHosts; i++ {
					if proto == 4 {
						fmt.Fprintf(&sb, "02:00:00:00:0a:%02x 10.0.0.%d\n", i+1, i+1)
					} else {
						fmt.Fprintf(&sb, "02:00:00:00:0a:%02x 2001:db8::%x\n", i+1, i+1)
					}
				}
				if proto == 4 {
					fmt.Fprintf(&sb, "02:00:00:00:0a:%02x 10.0.1.%d\n", which+1, which+1)
				} else {
					fmt.Fprintf(&sb, "02:00:00:00:0a:%02x 2001:db8:1::%x\n", which+1, which+1)
				}
				evalFile(r, FileCase{proto, strings.TrimSuffix(sb.String(), "\n")})
			}
		}
	}
	// (b)
	for _, proto := range []int{4, 6} {
		proto := proto
		res := explore.Explore(r, explore.Config[RefOp]{
			Name:        fmt.Sprintf("autorefresh-v%d", proto),
			New:         func() explore.Sys[RefOp] { return newRefSys(r, proto) },
			CheckMerges: true,
			Workers:     1, // the table is a package global
		})
		r.Sample("graph", map[string]interface{}{"name": fmt.Sprintf("autorefresh-v%d", proto), "states": res.States, "transitions": res.Transitions, "depth": res.Depth, "fixpoint": res.Fixpoint})
	}
	// (c)
	for _, order := range [][]int{{6, 4}, {4, 6}} {
		for _, reload := range []bool{false, true} {
			evalDual(r, DualCase{order, false, reload})
		}
	}
	if !r.Quick() {
		bindingRun(r)
	}
	spellingRuns(r)
}

// spellingRuns: the real autorefresh watcher with the lease file configured under different
// but equivalent spellings of its path (one process each: the table and the watcher are
// process-wide). A well-formed rewrite must be loaded whatever the spelling. The clean
// spelling is the control: if even that one is not loaded within the budget, inotify does not
// work here and nothing is concluded; otherwise a spelling whose update is never loaded (two
// attempts of 15 s each, against milliseconds for the control) is a violation.
var spellings = []string{"clean", "dot-segment", "double-slash", "dot-dot", "relative", "symlink-other-dir", "clean+atomic-replace", "clean+bad-then-good", "clean+large-then-small"}

// RefreshDeadlock runs, for the property named id (C16), the binding runs in which lookups
// overlap refreshes of the real watcher (good, malformed, good again): a lookup that never
// returns is a deadlock between the refresh goroutine and the handlers.
func RefreshDeadlock(r *ev.Run, id string) {
	got := map[string]string{}
	for _, sp := range []string{"clean", "clean+bad-then-good"} {
		res := reg.Spawn(r, "C10", 3*time.Minute, "spelling", sp)
		out := "died"
		if i := strings.Index(res.Output, "@@SPELLING "); i >= 0 && !res.Hung {
			out = strings.TrimSpace(strings.SplitN(res.Output[i+len("@@SPELLING "):], "\n", 2)[0])
		} else if strings.Contains(res.Output, "@@HANG") {
			out = "lookup-blocked"
		}
		got[sp] = out
		r.Eval("refresh-vs-lookups/" + sp + "/" + out)
	}
	if got["clean"] == "loaded" && got["clean+bad-then-good"] == "lookup-blocked" {
		r.Violate(id+"/refresh-deadlock", "real watcher: after a failed refresh and one more file event a static-lease lookup never returned (30 s operation watchdog): the refresh goroutine and the handlers block each other, no later datagram through the file plugin is answered", map[string]interface{}{"spelling": "clean+bad-then-good"})
	}
}

func spellingRuns(r *ev.Run) {
	r.Rule("Binding runs with the real watcher, one process per spelling of the configured path {clean, dir/./f, dir//f, dir/sub/../f, ./f relative to the working directory, symlink into another directory} and, for the clean spelling, an atomic replacement (temporary file renamed over the lease file): a well-formed update is loaded (control-calibrated: verdicts only when the clean spelling loads).")
	got := map[string]string{}
	var mu sync.Mutex
	var wg sync.WaitGroup
	for _, sp := range spellings {
		sp := sp
		wg.Add(1)
		go func() {
			defer wg.Done()
			res := reg.Spawn(r, "C10", 3*time.Minute, "spelling", sp)
			out := "died"
			if i := strings.Index(res.Output, "@@SPELLING "); i >= 0 && !res.Hung {
				out = strings.TrimSpace(strings.SplitN(res.Output[i+len("@@SPELLING "):], "\n", 2)[0])
			} else if strings.Contains(res.Output, "@@HANG") {
				out = "lookup-blocked" // the operation watchdog stopped a lookup that never returned
			}
			mu.Lock()
			got[sp] = out
			mu.Unlock()
		}()
	}
	wg.Wait()
	for _, sp := range spellings {
		r.Eval("binding/spelling/" + sp + "/" + got[sp])
	}
	r.Set("binding_spellings", fmt.Sprint(got))
	if got["clean"] != "loaded" {
		r.Set("binding_spellings_verdict", "inconclusive: the control (clean path) was not loaded: "+got["clean"])
		return
	}
	for _, sp := range spellings {
		if got[sp] == "lookup-blocked" {
			r.Violate("C10/binding/lookup-blocked/"+sp, fmt.Sprintf("lease file (%s) with autorefresh: after the updates a lookup through the handler never returned (stopped by the 30 s operation watchdog) while the control run answered at once", sp), map[string]interface{}{"spelling": sp})
		}
		if got[sp] == "stale-mapping-came-back" {
			r.Violate("C10/binding/stale-mapping-came-back/"+sp, "real watcher: after a large and then a small well-formed rewrite the small file's mapping was served and then replaced again by an older one, although the file on disk had not changed any more", map[string]interface{}{"spelling": sp})
		}
		if got[sp] == "bad-update-changed-table" {
			r.Violate("C10/binding/bad-update-changed-table/"+sp, "real watcher: a malformed update (appended line) changed the served mapping", map[string]interface{}{"spelling": sp})
		}
		if got[sp] == "never-loaded" {
			r.Violate("C10/binding/update-never-loaded/"+sp, fmt.Sprintf("lease file configured as a %s path with autorefresh: a well-formed rewrite was not loaded within 2 x 15 s although the same rewrite under the clean spelling was loaded at once", sp), map[string]interface{}{"spelling": sp})
		}
	}
}

func spellingWorker(r *ev.Run, sp string) {
	dir := srv.Scratch()
	real := filepath.Join(dir, "leases.txt")
	path := real
	switch sp {
	case "dot-segment":
		path = dir + "/./leases.txt"
	case "double-slash":
		path = dir + "//leases.txt"
	case "dot-dot":
		os.MkdirAll(filepath.Join(dir, "sub"), 0o755)
		path = dir + "/sub/../leases.txt"
	case "relative":
		if err := os.Chdir(dir); err != nil {
			fmt.Println("@@SPELLING setup-failed: " + err.Error())
			return
		}
		path = "./leases.txt"
	case "symlink-other-dir":
		other := filepath.Join(dir, "elsewhere")
		os.MkdirAll(other, 0o755)
		real = filepath.Join(other, "target.txt")
		path = filepath.Join(dir, "leases-link.txt")
		os.Symlink(real, path)
	}
	os.WriteFile(real, []byte(contents[4]["good1"]), 0o644)
	h4, _, err := setup(4, path, "autorefresh")
	if err != nil {
		fmt.Println("@@SPELLING setup-failed: " + err.Error())
		return
	}
	served := func(want map[string]string) bool {
		for _, m := range probeMACs {
			ip, _, _ := lookup4(h4, m)
			if ip != want[m] {
				return false
			}
		}
		return true
	}
	if !served(goodTables[4]["good1"]) {
		fmt.Println("@@SPELLING initial-table-wrong")
		return
	}
	for attempt := 0; attempt < 2; attempt++ {
		// in-place rewrite (truncate + write), then an append-free touch of the content again
		os.WriteFile(real, []byte(contents[4]["good2"]), 0o644)
		dl := time.Now().Add(15 * time.Second)
		for time.Now().Before(dl) {
			if served(goodTables[4]["good2"]) {
				if sp == "clean+large-then-small" {
					// two well-formed rewrites in quick succession, the first one large (parsing it
					// takes a few hundred milliseconds), the second small: when the dust has
					// settled the mapping served is that of the file on disk
					var big strings.Builder
					big.WriteString(contents[4]["good1"])
					for i := 0; big.Len() < 24<<20; i++ {
						fmt.Fprintf(&big, "\n02:aa:%02x:%02x:%02x:%02x 10.%d.%d.%d", i>>24&0xff, i>>16&0xff, i>>8&0xff, i&0xff, 100+i>>16&0x3f, i>>8&0xff, i&0xff)
					}
					t0 := time.Now()
					os.WriteFile(real, []byte(big.String()), 0o644)
					// wait until the watcher has had the chance to start reading the large file,
					// then replace it by the small one
					time.Sleep(60 * time.Millisecond)
					os.WriteFile(real, []byte(contents[4]["good2"]), 0o644)
					settle := time.Now().Add(25 * time.Second)
					okSince := time.Time{}
					for time.Now().Before(settle) {
						if served(goodTables[4]["good2"]) {
							if okSince.IsZero() {
								okSince = time.Now()
							}
							// stays correct for 3 s after it first became correct (a slow stale
							// reload would swap the old mapping back in)
							if time.Since(okSince) > 3*time.Second+2*time.Since(t0)/3 {
								fmt.Println("@@SPELLING loaded")
								return
							}
						} else if !okSince.IsZero() {
							fmt.Println("@@SPELLING stale-mapping-came-back")
							return
						}
						time.Sleep(20 * time.Millisecond)
					}
					if okSince.IsZero() {
						fmt.Println("@@SPELLING never-loaded")
					} else {
						fmt.Println("@@SPELLING loaded")
					}
					return
				}
				if sp == "clean+bad-then-good" {
					// a malformed update (one append: no truncation window) must leave the table
					// alone, and the NEXT well-formed update must still be loaded and lookups
					// must still be answered (every lookup is under the operation watchdog)
					if fh, err := os.OpenFile(real, os.O_APPEND|os.O_WRONLY, 0o644); err == nil {
						fh.WriteString("\n" + macB)
						fh.Close()
					}
					time.Sleep(300 * time.Millisecond)
					if !served(goodTables[4]["good2"]) {
						fmt.Println("@@SPELLING bad-update-changed-table")
						return
					}
					os.WriteFile(real, []byte(contents[4]["good1"]), 0o644)
					dl2 := time.Now().Add(20 * time.Second)
					for time.Now().Before(dl2) {
						if served(goodTables[4]["good1"]) {
							fmt.Println("@@SPELLING loaded")
							return
						}
						time.Sleep(10 * time.Millisecond)
					}
					fmt.Println("@@SPELLING never-loaded")
					return
				}
				if sp != "clean+atomic-replace" {
					fmt.Println("@@SPELLING loaded")
					return
				}
				// the way editors and configuration management install a file: write a
				// temporary file, rename it over the lease file (the first such replacement
				// is seen through the watch on the old inode)
				tmp := real + ".tmp"
				os.WriteFile(tmp, []byte(contents[4]["good1"]), 0o644)
				if err := os.Rename(tmp, real); err != nil {
					fmt.Println("@@SPELLING setup-failed: " + err.Error())
					return
				}
				dl2 := time.Now().Add(20 * time.Second)
				for time.Now().Before(dl2) {
					if served(goodTables[4]["good1"]) {
						fmt.Println("@@SPELLING loaded")
						return
					}
					time.Sleep(10 * time.Millisecond)
				}
				fmt.Println("@@SPELLING never-loaded")
				return
			}
			time.Sleep(10 * time.Millisecond)
		}
	}
	fmt.Println("@@SPELLING never-loaded")
}

// bindingRun: the real autorefresh watcher on a tmpfs file through good -> bad -> good'.
// Expiry of the (generous) budget is reported as inconclusive, never as a violation.
func bindingRun(r *ev.Run) {
	f := filepath.Join(srv.Scratch(), "c10-binding.txt")
	os.WriteFile(f, []byte(contents[4]["good1"]), 0o644)
	h4, _, err := setup(4, f, "autorefresh")
	if err != nil {
		r.Set("binding_run", "setup failed: "+err.Error())
		return
	}
	served := func(want map[string]string) bool {
		for _, m := range probeMACs {
			ip, _, _ := lookup4(h4, m)
			if ip != want[m] {
				return false
			}
		}
		return true
	}
	wait := func(want map[string]string) bool {
		dl := time.Now().Add(30 * time.Second)
		for time.Now().Before(dl) {
			if served(want) {
				return true
			}
			time.Sleep(20 * time.Millisecond)
		}
		return false
	}
	res := "ok"
	os.WriteFile(f, []byte(contents[4]["good2"]), 0o644)
	if !wait(goodTables[4]["good2"]) {
		res = "binding_inconclusive: good update not observed within 30s"
	}
	// the malformed update is an APPEND (one write, no truncation window): a rewrite would
	// leave the file empty - a well-formed empty table - for a moment, and loading that is
	// not a violation
	if fh, err := os.OpenFile(f, os.O_APPEND|os.O_WRONLY, 0o644); err == nil {
		fh.WriteString("\n" + macB)
		fh.Close()
	}
	time.Sleep(300 * time.Millisecond)
	if res == "ok" && !served(goodTables[4]["good2"]) {
		r.Violate("C10/binding/bad-update-changed-table", "real watcher: a malformed rewrite changed the served mapping", "real watcher good2 -> bad")
	}
	os.WriteFile(f, []byte(contents[4]["good1"]), 0o644)
	if res == "ok" && !wait(goodTables[4]["good1"]) {
		res = "binding_inconclusive: second good update not observed within 30s"
	}
	r.Set("binding_run", res)
}

func replay(r *ev.Run, raw json.RawMessage) {
	var probe map[string]json.RawMessage
	json.Unmarshal(raw, &probe)
	switch {
	case probe["file_content"] != nil:
		var c FileCase
		json.Unmarshal(raw, &c)
		evalFile(r, c)
	case probe["history"] != nil:
		var c RefCase
		json.Unmarshal(raw, &c)
		s := newRefSys(r, c.Proto)
		for _, op := range c.Hist {
			fmt.Printf("  %s %s -> %s ; %s\n", op.Kind, op.Content, s.Apply(op, true), s.Key())
		}
	case probe["spelling"] != nil:
		// re-runs the control and the named spelling
		var c struct{ Spelling string }
		json.Unmarshal(raw, &c)
		old := spellings
		spellings = []string{"clean", c.Spelling}
		spellingRuns(r)
		spellings = old
	case probe["setup_order"] != nil:
		var c DualCase
		json.Unmarshal(raw, &c)
		evalDual(r, c)
	default:
		r.Violate("C10/replay/bad-file", "unrecognised replay case", nil)
	}
}
