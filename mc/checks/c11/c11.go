// Package c11: DHCPv4 replies match their request; non-requests are never answered.
// Engine E3: complete cross product through the real HandleMsg4 (hook H1), oracle on raw bytes.
package c11

import (
	"bytes"
	"encoding/hex"
	"encoding/json"
	"fmt"
	"net"
	"path/filepath"
	"sync"
	"syscall"

	"github.com/coredhcp/coredhcp/handler"
	rangeplugin "github.com/coredhcp/coredhcp/plugins/range"
	"github.com/coredhcp/coredhcp/plugins/serverid"
	"github.com/insomniacslk/dhcp/dhcpv4"

	"verifmc/ev"
	"verifmc/pkt"
	"verifmc/reg"
	"verifmc/srv"
)

func init() {
	reg.Register(&reg.Check{ID: "C11", Level: "exploration", Run: run, Replay: replay})
}

type Case struct {
	Chain string `json:"chain"`
	Dgram string `json:"datagram_hex"`
	Note  string `json:"note,omitempty"`
	Fault string `json:"environment_fault,omitempty"` // "" | "send" | "raw-socket-eperm" | "raw-socket-eacces"
}

var (
	chainsOnce sync.Once
	chains     map[string][]handler.Handler4
	chainNames = []string{"empty", "range", "server_id+range", "nak", "nil"}
)

func setupChains() {
	chainsOnce.Do(func() {
		db := filepath.Join(srv.Scratch(), "c11-leases.sqlite")
		rh, err := rangeplugin.Plugin.Setup4(db, "10.0.0.10", "10.0.3.250", "60s")
		if err != nil {
			panic(err)
		}
		sh, err := serverid.Plugin.Setup4("192.0.2.1")
		if err != nil {
			panic(err)
		}
		nak := func(req, resp *dhcpv4.DHCPv4) (*dhcpv4.DHCPv4, bool) {
			if req.MessageType() != dhcpv4.MessageTypeRequest {
				return resp, false // a NAK only ever answers a REQUEST
			}
			resp.UpdateOption(dhcpv4.OptMessageType(dhcpv4.MessageTypeNak))
			return resp, true
		}
		drop := func(req, resp *dhcpv4.DHCPv4) (*dhcpv4.DHCPv4, bool) { return nil, true }
		chains = map[string][]handler.Handler4{
			"empty": nil, "range": {rh}, "server_id+range": {sh, rh}, "nak": {nak}, "nil": {drop},
		}
	})
}

func boundIf() net.Interface {
	for _, i := range srv.Ifaces() {
		if i.Flags&net.FlagLoopback == 0 && i.Flags&net.FlagUp != 0 {
			return i
		}
	}
	return srv.Ifaces()[0]
}

var bif = boundIf()

// eval runs one datagram through the real entry point and applies the reference.
var fault string

// setFault puts the named environment fault in force for the following evals.
func setFault(f string) {
	fault = f
	srv.Fault.SendErr, srv.Fault.FrameErr = nil, nil
	switch f {
	case "send":
		srv.Fault.SendErr = fmt.Errorf("sendmsg: %w", syscall.ENETUNREACH)
	case "raw-socket-eperm":
		srv.Fault.FrameErr = fmt.Errorf("Send Ethernet: Cannot open socket: %w", syscall.EPERM)
	case "raw-socket-eacces":
		srv.Fault.FrameErr = fmt.Errorf("Send Ethernet: Cannot open socket: %w", syscall.EACCES)
	}
}

func eval(r *ev.Run, chain string, dgram []byte, note string) {
	c := Case{chain, hex.EncodeToString(dgram), note, fault}
	out := srv.Run4(bif, chains[chain], dgram, 0, &net.UDPAddr{IP: net.IPv4(10, 9, 9, 9), Port: 68})
	if out.Panic != "" {
		// crashes are C01's clause; here they only make the case unusable
		r.Eval("panic")
		return
	}
	req, perr := pkt.ParseV4(dgram)
	mt := -1
	if perr == nil {
		mt = req.MsgType()
	}
	answerable := perr == nil && req.Op == 1 && (mt == 1 || mt == 3)
	n := out.Replies()
	class := fmt.Sprintf("chain=%s/op=%s/type=%s/replies=%d", chain, opClass(req.Op, perr), typeClass(mt), n)
	defer func() { r.Eval(class); r.Sample(class, c) }()
	if n > 1 {
		r.Violate("C11/more-than-one-reply", fmt.Sprintf("%d replies to one datagram (chain %s)", n, chain), c)
		return
	}
	if n == 0 {
		return
	}
	if !answerable {
		if perr == nil && req.NoEnd {
			return // statement is silent on a missing END option
		}
		why := fmt.Sprintf("op=%d type=%d", req.Op, mt)
		sig := "C11/answered-non-request/"
		switch {
		case perr != nil:
			why = "unparseable: " + perr.Error()
			sig += "unparseable"
		case req.Op != 1:
			sig += "opcode"
		default:
			sig += "message-type"
		}
		r.Violate(sig, "reply sent to a datagram that is not a DISCOVER/REQUEST BOOTREQUEST ("+why+")", c)
		return
	}
	var rb []byte
	if len(out.Sent) == 1 {
		rb = out.Sent[0].Data
	} else {
		f := out.Frames[0].Data
		if len(f) < 42 {
			r.Violate("C11/short-frame", "L2 frame shorter than its headers", c)
			return
		}
		rb = f[42:]
	}
	rep, err := pkt.ParseV4(rb)
	if err != nil {
		r.Violate("C11/reply-unparseable", "reply does not parse: "+err.Error(), c)
		return
	}
	bad := func(field, what string) {
		r.Violate("C11/reply-mismatch/"+field, fmt.Sprintf("chain %s: reply %s", chain, what), c)
	}
	if rep.Op != 2 {
		bad("opcode", fmt.Sprintf("opcode %d, want BOOTREPLY", rep.Op))
	}
	if rep.Xid != req.Xid {
		bad("xid", fmt.Sprintf("xid %08x, request %08x", rep.Xid, req.Xid))
	}
	if rep.HType != req.HType {
		bad("htype", fmt.Sprintf("htype %d, request %d", rep.HType, req.HType))
	}
	hl := int(req.HLen)
	if hl > 16 {
		hl = 16
	}
	if !bytes.Equal(rep.CHAddr[:hl], req.CHAddr[:hl]) {
		bad("chaddr", fmt.Sprintf("chaddr %x, request %x", rep.CHAddr[:hl], req.CHAddr[:hl]))
	}
	if rep.Flags != req.Flags {
		bad("flags", fmt.Sprintf("flags %04x, request %04x", rep.Flags, req.Flags))
	}
	if rep.GI != req.GI {
		bad("giaddr", fmt.Sprintf("giaddr %v, request %v", rep.GI, req.GI))
	}
	for _, code := range []byte{82, 61} {
		qd, qn := req.Get(code)
		pd, pn := rep.Get(code)
		if (qn > 0) != (pn > 0) || !bytes.Equal(qd, pd) {
			bad(fmt.Sprintf("option%d", code), fmt.Sprintf("option %d = %x (%d inst.), request %x (%d inst.)", code, pd, pn, qd, qn))
		}
	}
	rt := rep.MsgType()
	switch {
	case mt == 1 && rt != 2:
		bad("type", fmt.Sprintf("type %d to a DISCOVER, want OFFER", rt))
	case mt == 3 && rt != 5 && rt != 6:
		bad("type", fmt.Sprintf("type %d to a REQUEST, want ACK or NAK", rt))
	}
	class += fmt.Sprintf("/rtype=%d", rt)
}

func opClass(op byte, perr error) string {
	if perr != nil {
		return "unparseable"
	}
	switch op {
	case 1:
		return "request"
	case 2:
		return "reply"
	}
	return "other"
}

func typeClass(mt int) string {
	switch mt {
	case -1:
		return "none"
	case 1:
		return "discover"
	case 3:
		return "request"
	}
	return "other"
}

func richHeader() pkt.V4 {
	p := pkt.V4{Op: 1, HType: 1, HLen: 6, Xid: 0x01020304, Flags: 0x8000}
	copy(p.CHAddr[:], []byte{0x02, 0, 0, 0xaa, 0xbb, 0xcc, 0xde, 0xad, 0xbe, 0xef, 1, 2, 3, 4, 5, 6})
	return p
}

var (
	opt82 = pkt.Opt4{Code: 82, Data: []byte{1, 4, 'c', 'i', 'r', 'c', 2, 2, 'r', 'i'}}
	opt61 = pkt.Opt4{Code: 61, Data: []byte{1, 2, 0, 0, 0xaa, 0xbb, 0xcc}}
)

func run(r *ev.Run) {
	setupChains()
	r.Rule("E3 complete products through the real HandleMsg4: (A) opcode 0..255 x message type {absent,0..255} with a rich header; (A2) option 53 of 0, 2 or 3 octets and repeated (12 shapes x position) under every chain: never answered; (B) op=1,type in {DISCOVER,REQUEST} x xid{0,ffffffff,01020304} x htype{1,6,255} x hlen{0,6,16,17,255} x flags{0,8000,7fff,ffff} x giaddr{0,set} x ciaddr{0,set} x opt82 x opt61 x chain{empty,range,server_id+range,NAK plugin,nil plugin}; (B2) option 82 of {absent,1,2,100,190,200,255} octets x option 61 of {absent,2,80,255} x option 57 {absent,300,576,1500} x giaddr x type x chain; (B3) the same requests with every send failing / the raw socket refused (EPERM, EACCES): what is handed to the socket still matches; (B5) a client that holds a lease requesting its own / another / an outside / a malformed address (option 50) x flags x giaddr x ciaddr; (B4) every other option code in three payload shapes added to a relayed request; (C) every truncation of 3 seeds. Oracle on raw bytes with an independent parser. Class = chain/opcode class/type class/#replies/reply type.")
	r.Assume("listener bound to " + bif.Name + "; reply captured at WriteTo or as the L2 frame before the AF_PACKET socket; a missing END option is not asserted")
	// (A)
	for op := 0; op < 256; op++ {
		for mt := -1; mt < 256; mt++ {
			p := richHeader()
			p.Op = byte(op)
			p.Opts = []pkt.Opt4{opt82, opt61, {Code: 12, Data: []byte("host")}}
			if mt >= 0 {
				p.Opts = append([]pkt.Opt4{{Code: 53, Data: []byte{byte(mt)}}}, p.Opts...)
			}
			eval(r, "empty", p.Bytes(), "")
		}
	}
	// (A2) malformed message types: option 53 that is not exactly one octet (after the
	// concatenation of repeated instances, RFC 3396) is no message type at all
	for _, chain := range chainNames {
		for _, shape := range [][]pkt.Opt4{
			{{Code: 53, Data: []byte{}}},
			{{Code: 53, Data: []byte{1, 0}}}, {{Code: 53, Data: []byte{3, 0}}}, {{Code: 53, Data: []byte{1, 1}}}, {{Code: 53, Data: []byte{3, 3}}},
			{{Code: 53, Data: []byte{1, 3, 0}}}, {{Code: 53, Data: []byte{0, 1}}}, {{Code: 53, Data: []byte{0, 3}}},
			{{Code: 53, Data: []byte{1}}, {Code: 53, Data: []byte{1}}}, {{Code: 53, Data: []byte{3}}, {Code: 53, Data: []byte{3}}},
			{{Code: 53, Data: []byte{1}}, {Code: 53, Data: []byte{3}}}, {{Code: 53, Data: []byte{3}}, {Code: 53, Data: []byte{1}}},
		} {
			for _, tailFirst := range []bool{false, true} {
				p := richHeader()
				rest := []pkt.Opt4{opt82, opt61, {Code: 50, Data: []byte{10, 0, 0, 5}}}
				if tailFirst {
					p.Opts = append(append([]pkt.Opt4{}, rest...), shape...)
				} else if len(shape) == 2 {
					p.Opts = append(append([]pkt.Opt4{shape[0]}, rest...), shape[1]) // instances apart
				} else {
					p.Opts = append(append([]pkt.Opt4{}, shape...), rest...)
				}
				eval(r, chain, p.Bytes(), "malformed message-type option")
			}
		}
	}
	// (B)
	for _, chain := range chainNames {
		for _, mt := range []byte{1, 3} {
			for _, xid := range []uint32{0, 0xffffffff, 0x01020304} {
				for _, ht := range []byte{1, 6, 255} {
					for _, hl := range []byte{0, 6, 16, 17, 255} {
						for _, fl := range []uint16{0, 0x8000, 0x7fff, 0xffff} {
							for gi := 0; gi < 2; gi++ {
								for ci := 0; ci < 2; ci++ {
									for o := 0; o < 4; o++ {
										p := richHeader()
										p.Xid, p.HType, p.HLen, p.Flags = xid, ht, hl, fl
										if gi == 1 {
											p.GI = [4]byte{10, 0, 0, 1}
										}
										if ci == 1 {
											p.CI = [4]byte{10, 0, 0, 77}
										}
										p.Opts = []pkt.Opt4{{Code: 53, Data: []byte{mt}}}
										if o&1 != 0 {
											p.Opts = append(p.Opts, opt82)
										}
										if o&2 != 0 {
											p.Opts = append(p.Opts, opt61)
										}
										eval(r, chain, p.Bytes(), "")
									}
								}
							}
						}
					}
				}
			}
		}
	}
	// (B2) sizes: whatever the length of the relay-agent information and of the client
	// identifier, and whatever maximum message size the client announces, both are echoed
	for _, chain := range chainNames {
		for _, mt := range []byte{1, 3} {
			for gi := 0; gi < 2; gi++ {
				for _, l82 := range []int{-1, 1, 2, 100, 190, 200, 255} {
					for _, l61 := range []int{-1, 2, 80, 255} {
						for _, mms := range []int{-1, 300, 576, 1500} {
							p := richHeader()
							if gi == 1 {
								p.GI = [4]byte{10, 0, 0, 1}
							}
							p.Opts = []pkt.Opt4{{Code: 53, Data: []byte{mt}}}
							if mms >= 0 {
								p.Opts = append(p.Opts, pkt.Opt4{Code: 57, Data: []byte{byte(mms >> 8), byte(mms)}})
							}
							if l82 >= 0 {
								d := make([]byte, l82)
								if l82 >= 2 {
									d[0], d[1] = 1, byte(l82-2) // one circuit-id sub-option filling the option
								}
								for i := 2; i < l82; i++ {
									d[i] = byte('a' + i%26)
								}
								p.Opts = append(p.Opts, pkt.Opt4{Code: 82, Data: d})
							}
							if l61 >= 0 {
								d := bytes.Repeat([]byte{0x5c}, l61)
								d[0] = 0
								p.Opts = append(p.Opts, pkt.Opt4{Code: 61, Data: d})
							}
							eval(r, chain, p.Bytes(), fmt.Sprintf("option 82 of %d, option 61 of %d octets, max message size %d", l82, l61, mms))
						}
					}
				}
			}
		}
	}
	// (B5) a client that already holds a lease (every request above came from the same hardware
	// address) asks for addresses: its own, another one, one outside the range, malformed
	for _, chain := range []string{"range", "server_id+range"} {
		first := richHeader()
		first.Opts = []pkt.Opt4{{Code: 53, Data: []byte{1}}}
		eval(r, chain, first.Bytes(), "DISCOVER that makes sure the client holds a lease")
		for _, mt := range []byte{1, 3} {
			for _, fl := range []uint16{0, 0x8000} {
				for gi := 0; gi < 2; gi++ {
					for ci := 0; ci < 2; ci++ {
						for _, o50 := range [][]byte{{10, 0, 0, 10}, {10, 0, 0, 11}, {10, 0, 3, 250}, {10, 0, 9, 9}, {192, 0, 2, 200}, {0, 0, 0, 0}, {255, 255, 255, 255}, {10, 0, 0}} {
							for _, o54 := range [][]byte{nil, {192, 0, 2, 1}} {
								p := richHeader()
								p.Flags = fl
								if gi == 1 {
									p.GI = [4]byte{10, 0, 0, 1}
								}
								if ci == 1 {
									p.CI = [4]byte{10, 0, 0, 77}
								}
								p.Opts = []pkt.Opt4{{Code: 53, Data: []byte{mt}}, {Code: 50, Data: o50}, opt61}
								if o54 != nil {
									p.Opts = append(p.Opts, pkt.Opt4{Code: 54, Data: o54})
								}
								eval(r, chain, p.Bytes(), fmt.Sprintf("known client requesting address %v", o50))
							}
						}
					}
				}
			}
		}
	}
	// (B4) options the statement does not name: the reply still matches its request
	for _, chain := range chainNames {
		for _, mt := range []byte{1, 3} {
			for i, x := range pkt.Extra4(61, 82) {
				p := richHeader()
				p.Opts = []pkt.Opt4{{Code: 53, Data: []byte{mt}}, opt82, opt61}
				if i%2 == 0 {
					p.Opts = append([]pkt.Opt4{x}, p.Opts...)
				} else {
					p.Opts = append(p.Opts, x)
				}
				eval(r, chain, p.Bytes(), fmt.Sprintf("extra option %d (%d octets)", x.Code, len(x.Data)))
			}
		}
	}
	// (B3) environment faults: whatever is handed to the socket while sends fail or the raw
	// socket is refused must still match its request (a fallback path is a reply too)
	for _, f := range []string{"send", "raw-socket-eperm", "raw-socket-eacces"} {
		setFault(f)
		for _, chain := range chainNames {
			for _, mt := range []byte{1, 3} {
				for _, fl := range []uint16{0, 0x8000} {
					for gi := 0; gi < 2; gi++ {
						for ci := 0; ci < 2; ci++ {
							for o := 0; o < 4; o++ {
								p := richHeader()
								p.Flags = fl
								p.GI, p.CI = [4]byte{}, [4]byte{}
								if gi == 1 {
									p.GI = [4]byte{10, 0, 0, 1}
								}
								if ci == 1 {
									p.CI = [4]byte{10, 0, 0, 77}
								}
								p.Opts = []pkt.Opt4{{Code: 53, Data: []byte{mt}}}
								if o&1 != 0 {
									p.Opts = append(p.Opts, opt82)
								}
								if o&2 != 0 {
									p.Opts = append(p.Opts, opt61)
								}
								eval(r, chain, p.Bytes(), "environment fault: "+f)
							}
						}
					}
				}
			}
		}
	}
	setFault("")
	schedPart(r)
	// (C) truncations
	seeds := []pkt.V4{richHeader(), richHeader(), richHeader()}
	seeds[0].Opts = []pkt.Opt4{{Code: 53, Data: []byte{1}}, opt82, opt61}
	seeds[1].Opts = []pkt.Opt4{{Code: 53, Data: []byte{3}}, {Code: 50, Data: []byte{10, 0, 0, 5}}, {Code: 55, Data: []byte{1, 3, 6}}}
	seeds[1].Flags = 0
	seeds[2].Opts = []pkt.Opt4{opt61, {Code: 0}, {Code: 53, Data: []byte{1}}}
	seeds[2].GI = [4]byte{10, 0, 0, 1}
	for si, s := range seeds {
		b := s.Bytes()
		for cut := 0; cut < len(b); cut++ {
			for _, chain := range []string{"empty", "range"} {
				eval(r, chain, b[:cut], fmt.Sprintf("seed %d cut at %d", si, cut))
			}
		}
	}
}

// schedPart: the buffer-recycling scenarios of C16 (through the real Serve loop and buffer
// pool) under id C11: an unparseable datagram must stay unanswered whatever an earlier,
// longer datagram left in the receive buffer, and every reply must match its own request.
var schedPart = func(r *ev.Run) {}

// SetSchedPart installs the E2 part (wired in cmd/mc to avoid an import cycle).
func SetSchedPart(f func(*ev.Run)) { schedPart = f }

func replay(r *ev.Run, raw json.RawMessage) {
	setupChains()
	var c Case
	if err := json.Unmarshal(raw, &c); err != nil {
		r.Violate("C11/replay/bad-file", err.Error(), nil)
		return
	}
	b, _ := hex.DecodeString(c.Dgram)
	setFault(c.Fault)
	eval(r, c.Chain, b, c.Note)
	setFault("")
}
