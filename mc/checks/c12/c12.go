// Package c12: DHCPv6 replies match their request; relayed requests get a mirrored Relay-Reply.
// Engine E3: complete cross product through the real HandleMsg6 (hook H1), oracle on raw bytes.
package c12

import (
	"bytes"
	"encoding/hex"
	"encoding/json"
	"fmt"
	"net"
	"strings"
	"sync"

	"github.com/coredhcp/coredhcp/handler"
	"github.com/insomniacslk/dhcp/dhcpv6"

	"verifmc/checks/c16"
	"verifmc/conc"
	"verifmc/ev"
	"verifmc/pkt"
	"verifmc/reg"
	"verifmc/srv"
)

func init() {
	reg.Register(&reg.Check{ID: "C12", Level: "exploration", Run: run, Replay: replay})
}

type Case struct {
	Chain string `json:"chain"`
	Dgram string `json:"datagram_hex"`
	Peer  string `json:"peer"`
	Bound int    `json:"bound_ifindex"`
	Oob   int    `json:"oob_ifindex"`
}

var supported = map[byte]bool{1: true, 3: true, 4: true, 5: true, 6: true, 8: true, 11: true}

var dnsAddr = net.ParseIP("2001:db8::53")

func tagger(req, resp dhcpv6.DHCPv6) (dhcpv6.DHCPv6, bool) {
	resp.AddOption(dhcpv6.OptDNS(dnsAddr))
	return resp, false
}

var chains = map[string][]handler.Handler6{"empty": nil, "tagger": {tagger}}

func ifByIndex(idx int) net.Interface {
	for _, i := range srv.Ifaces() {
		if i.Index == idx {
			return i
		}
	}
	return net.Interface{}
}

// ifIdxs: every host interface (they differ in MTU, flags and hardware address).
var ifIdxs = func() []int {
	var out []int
	for _, i := range srv.Ifaces() {
		out = append(out, i.Index)
	}
	return out
}()

var realIdx = func() int {
	for _, i := range srv.Ifaces() {
		if i.Flags&net.FlagLoopback == 0 {
			return i.Index
		}
	}
	return 1
}()

func eval(r *ev.Run, c Case) {
	dgram, _ := hex.DecodeString(c.Dgram)
	host, port, _ := net.SplitHostPort(c.Peer)
	var pn int
	fmt.Sscan(port, &pn)
	peer := &net.UDPAddr{IP: net.ParseIP(host), Port: pn}
	var ifi net.Interface
	if c.Bound != 0 {
		ifi = ifByIndex(c.Bound)
	}
	out := srv.Run6(ifi, chains[c.Chain], dgram, c.Oob, peer)
	if out.Panic != "" {
		r.Eval("panic")
		return
	}
	req, perr := pkt.Parse6(dgram)
	allFwd, anyReply := true, false
	for _, l := range req.Layers {
		if l.Type != 12 {
			allFwd = false
		}
	}
	if len(req.Layers) > 0 && req.Layers[0].Type == 13 {
		anyReply = true
	}
	var mtype byte
	var cid []byte
	ncid := 0
	rapid := false
	if perr == nil && req.Msg != nil {
		mtype = req.Msg.Type
		cid, ncid = pkt.Get6(req.Msg.Opts, 1)
		_, nr := pkt.Get6(req.Msg.Opts, 14)
		rapid = nr > 0
	}
	n := len(out.Sent)
	class := fmt.Sprintf("chain=%s/depth=%d/type=%s/cid=%d/rapid=%v/replies=%d", c.Chain, len(req.Layers), tclass(mtype, perr), ncid, rapid, n)
	defer func() { r.Eval(class); r.Sample(class, c) }()
	if n > 1 {
		r.Violate("C12/more-than-one-reply", fmt.Sprintf("%d replies to one datagram", n), c)
		return
	}
	if n == 0 {
		// "A request relayed through n Relay-Forward layers is answered ...": with chains that
		// never drop, a well-formed relayed request of a supported type must get its reply
		if perr == nil && req.Msg != nil && len(req.Layers) > 0 && allFwd && supported[mtype] && ncid == 1 {
			r.Violate("C12/relayed-request-unanswered", fmt.Sprintf("relayed %s (%d Relay-Forward layers, datagram of %d octets) got no reply under a chain that drops nothing", tclass(mtype, perr), len(req.Layers), len(dgram)), c)
		}
		return
	}
	switch {
	case perr != nil:
		r.Violate("C12/answered/unparseable", "reply to a datagram that does not parse: "+perr.Error(), c)
		return
	case anyReply:
		r.Violate("C12/answered/relay-reply", "reply to a Relay-Reply message", c)
		return
	case !supported[mtype]:
		r.Violate("C12/answered/unsupported-type", fmt.Sprintf("reply to message type %d", mtype), c)
		return
	}
	if !allFwd {
		return // mixed Relay-Forward/Relay-Reply nesting: statement is silent
	}
	s := out.Sent[0]
	bad := func(field, what string) { r.Violate("C12/reply-mismatch/"+field, what, c) }
	// addressing
	if ua, ok := s.Peer.(*net.UDPAddr); !ok || !ua.IP.Equal(peer.IP) || ua.Port != peer.Port || ua.Zone != peer.Zone {
		bad("destination", fmt.Sprintf("reply sent to %v, request came from %v", s.Peer, peer))
	}
	if peer.IP.IsLinkLocalUnicast() {
		want := c.Bound
		if want == 0 {
			want = c.Oob
		}
		if want != 0 && (!s.HasCM || s.IfIndex != want) {
			bad("interface", fmt.Sprintf("link-local peer: reply pinned to ifindex %d (control message present=%v), want %d", s.IfIndex, s.HasCM, want))
		}
		class += "/ll"
	}
	rep, err := pkt.Parse6(s.Data)
	if err != nil || rep.Msg == nil {
		bad("unparseable", fmt.Sprintf("reply does not parse: %v", err))
		return
	}
	if len(rep.Layers) != len(req.Layers) {
		bad("relay-depth", fmt.Sprintf("reply has %d relay layers, request %d", len(rep.Layers), len(req.Layers)))
		return
	}
	for i := range req.Layers {
		q, p := req.Layers[i], rep.Layers[i]
		if p.Type != 13 {
			bad("relay-type", fmt.Sprintf("layer %d has type %d, want Relay-Reply", i, p.Type))
		}
		if p.Link != q.Link {
			bad("link-address", fmt.Sprintf("layer %d link-address %v, request %v", i, net.IP(p.Link[:]), net.IP(q.Link[:])))
		}
		if p.Peer != q.Peer {
			bad("peer-address", fmt.Sprintf("layer %d peer-address %v, request %v", i, net.IP(p.Peer[:]), net.IP(q.Peer[:])))
		}
		qi, qn := pkt.Get6(q.Opts, 18)
		pi, pn := pkt.Get6(p.Opts, 18)
		if qn != pn || !bytes.Equal(qi, pi) {
			bad("interface-id", fmt.Sprintf("layer %d Interface-ID %x (x%d), request %x (x%d)", i, pi, pn, qi, qn))
		}
	}
	m := rep.Msg
	want := byte(7)
	if mtype == 1 && !rapid {
		want = 2
	}
	if m.Type != want {
		bad("type", fmt.Sprintf("reply type %d to message type %d (rapid commit %v), want %d", m.Type, mtype, rapid, want))
	}
	if m.Xid != req.Msg.Xid {
		bad("xid", fmt.Sprintf("xid %x, request %x", m.Xid, req.Msg.Xid))
	}
	if pc, pnc := pkt.Get6(m.Opts, 1); ncid > 0 && (pnc != 1 || !bytes.Equal(pc, cid)) {
		bad("client-id", fmt.Sprintf("client-id %x (x%d), request %x", pc, pnc, cid))
	}
	_, nrc := pkt.Get6(m.Opts, 14)
	if mtype == 1 && rapid && nrc != 1 {
		bad("rapid-commit", fmt.Sprintf("REPLY to SOLICIT+RapidCommit carries %d Rapid Commit options", nrc))
	}
	if c.Chain == "tagger" {
		d, nd := pkt.Get6(m.Opts, 23)
		if nd != 1 || !bytes.Equal(d, dnsAddr) {
			bad("inner-answer", fmt.Sprintf("innermost message lost the handler's answer (option 23 = %x x%d)", d, nd))
		}
	}
	class += fmt.Sprintf("/rtype=%d", m.Type)
}

func tclass(t byte, perr error) string {
	if perr != nil {
		return "unparseable"
	}
	if supported[t] {
		return fmt.Sprintf("%d", t)
	}
	if t == 12 || t == 13 {
		return "relay"
	}
	return "unsupported"
}

var addrs = [][16]byte{
	{}, // ::
	{0x20, 0x01, 0x0d, 0xb8, 0, 0, 0, 1, 0, 0, 0, 0, 0, 0, 0, 1},
	{0xfe, 0x80, 0, 0, 0, 0, 0, 0, 2, 0, 0, 0xff, 0xfe, 0, 0, 1},
}

// layer builds relay layer i for per-layer variant v.
func layer(i, v int, typ byte, inner []byte) []byte {
	k := (v + i) % 9
	l := pkt.Relay6{Type: typ, Hop: byte(i), Link: addrs[k%3], Peer: addrs[(k+1+i)%3], Inner: inner}
	l.Link[15] ^= byte(i)
	switch k / 3 {
	case 1:
		l.Opts = []pkt.Opt6{{Code: 18, Data: []byte(fmt.Sprintf("if-%d", i))}}
	case 2:
		l.Opts = []pkt.Opt6{{Code: 18, Data: []byte(fmt.Sprintf("if-%d", i))}}
		l.After = []pkt.Opt6{{Code: 37, Data: append([]byte{0, 0, 0x9, 0xbf}, byte(i))}}
	}
	return l.Bytes()
}

func build(mtype byte, cid, rapid bool, depth, variant int, outerType byte) []byte {
	m := pkt.Msg6{Type: mtype, Xid: [3]byte{0xab, 0xcd, mtype}}
	if cid {
		m.Opts = append(m.Opts, pkt.Opt6{Code: 1, Data: []byte{0, 3, 0, 1, 2, 0, 0, 0xaa, 0xbb, 0xcc}})
	}
	m.Opts = append(m.Opts, pkt.Opt6{Code: 8, Data: []byte{0, 0}})
	if rapid {
		m.Opts = append(m.Opts, pkt.Opt6{Code: 14})
	}
	b := m.Bytes()
	for i := depth - 1; i >= 0; i-- {
		t := byte(12)
		if i == 0 {
			t = outerType
		}
		b = layer(i, variant, t, b)
	}
	return b
}

func run(r *ev.Run) {
	maxDepth := 2
	if !r.Quick() {
		maxDepth = 4
	}
	r.Rule(fmt.Sprintf("E3 complete product through the real HandleMsg6: message type byte 0..255 x client-id{absent,present} x rapid-commit x relay depth 0..%d x 9 per-layer variants (link/peer from {::,global,link-local}, {no option, Interface-ID, Interface-ID+Remote-ID}, distinct per layer) x peer{global, fe80::99, fe80:0:0:1::1, febf:ffff::1 (all link-local, fe80::/10), fec0::1 (not link-local)} x listener{bound,unbound} x control message{nil,ifindex} x chain{empty, option-adding handler}; plus replies of 1.2-20 KiB (long Interface-ID / client identifier) on listeners bound to every host interface, Relay-Reply as outer type, mixed nesting, relay without inner message, every truncation of 2 seeds. E2: two datagrams in flight at once (relayed through different relay agents / direct with forced buffer reuse) through the real Serve loop under all schedules up to the preemption bound. Oracle on raw bytes with an independent parser. Class = chain/depth/type/cid/rapid/#replies/reply type.", maxDepth))
	r.Assume("reply captured at WriteTo (no socket); mixed Relay-Forward/Relay-Reply nesting and requests without client-id are enumerated but only checked for 'no reply to unsupported types'")
	// link-local unicast is fe80::/10: also sources with bits set between /10 and /64
	// source ports: client port, server/relay port, an ephemeral one, the extremes
	peers := []string{"[2001:db8::99]:546", "[fe80::99]:5546", "[fe80:0:0:1::1]:546", "[febf:ffff::1]:546", "[fec0::1]:546", "[2001:db8::98]:547", "[2001:db8::97]:65535", "[fe80::96]:1"}
	var wg sync.WaitGroup
	sem := make(chan struct{}, 16)
	for t := 0; t < 256; t++ {
		t := t
		wg.Add(1)
		sem <- struct{}{}
		go func() {
			defer wg.Done()
			defer func() { <-sem }()
			for cid := 0; cid < 2; cid++ {
				for rc := 0; rc < 2; rc++ {
					for depth := 0; depth <= maxDepth; depth++ {
						nv := 9
						if depth == 0 {
							nv = 1
						}
						for v := 0; v < nv; v++ {
							d := hex.EncodeToString(build(byte(t), cid == 1, rc == 1, depth, v, 12))
							for _, peer := range peers {
								for _, bound := range []int{0, realIdx} {
									for _, oob := range []int{0, realIdx} {
										eval(r, Case{"empty", d, peer, bound, oob})
									}
								}
							}
							if depth <= 1 {
								eval(r, Case{"tagger", d, peers[0], 0, realIdx})
							}
						}
						if depth > 0 && supported[byte(t)] {
							// outer Relay-Reply and a mixed nesting
							eval(r, Case{"empty", hex.EncodeToString(build(byte(t), cid == 1, rc == 1, depth, 1, 13)), peers[0], 0, realIdx})
						}
					}
				}
			}
		}()
	}
	wg.Wait()
	// options the statement does not name, in the client message and in the relay layers: the
	// reply still matches (type, transaction id, client id, mirrored layers)
	for _, t := range []byte{1, 3, 11} {
		for depth := 0; depth <= 2; depth++ {
			for i, x := range pkt.Extra6() {
				m := pkt.Msg6{Type: t, Xid: [3]byte{0xab, 0xcf, t}, Opts: []pkt.Opt6{{Code: 1, Data: []byte{0, 3, 0, 1, 2, 0, 0, 0xaa, 0xbb, 0xcc}}, {Code: 8, Data: []byte{0, 0}}}}
				inLayer := depth > 0 && i%3 == 2
				if !inLayer {
					if i%2 == 0 {
						m.Opts = append([]pkt.Opt6{x}, m.Opts...)
					} else {
						m.Opts = append(m.Opts, x)
					}
				}
				b := m.Bytes()
				for k := depth - 1; k >= 0; k-- {
					l := pkt.Relay6{Type: 12, Hop: byte(k), Link: addrs[1], Peer: addrs[2], Inner: b}
					l.Opts = []pkt.Opt6{{Code: 18, Data: []byte(fmt.Sprintf("if-%d", k))}}
					if inLayer && k == 0 && x.Code != 18 {
						l.After = []pkt.Opt6{x}
					}
					b = l.Bytes()
				}
				if _, err := dhcpv6.FromBytes(b); err != nil {
					continue // the codec rejects this payload for this code: dropped as unparseable
				}
				eval(r, Case{"empty", hex.EncodeToString(b), peers[0], 0, realIdx})
			}
		}
	}
	// sizes: replies far larger than any interface MTU are still replies (an Interface-ID or a
	// client identifier of any length is mirrored), whatever the listener is bound to
	for _, t := range []byte{1, 3, 11} {
		for _, n := range []int{1200, 1393, 1500, 4000, 20000} {
			big := bytes.Repeat([]byte{'i'}, n)
			for depth := 0; depth <= 2; depth++ {
				m := pkt.Msg6{Type: t, Xid: [3]byte{0xab, 0xce, t}}
				cid := []byte{0, 2, 0, 0, 0x9, 0xbf, 1, 2, 3, 4}
				if depth == 0 {
					cid = append([]byte{0, 2, 0, 0, 0x9, 0xbf}, big...)
				}
				m.Opts = []pkt.Opt6{{Code: 1, Data: cid}, {Code: 8, Data: []byte{0, 0}}}
				b := m.Bytes()
				for i := depth - 1; i >= 0; i-- {
					l := pkt.Relay6{Type: 12, Hop: byte(i), Link: addrs[1], Peer: addrs[2], Inner: b}
					if i == depth-1 {
						l.Opts = []pkt.Opt6{{Code: 18, Data: big}}
					}
					b = l.Bytes()
				}
				if len(b) > 65000 {
					continue
				}
				for _, bound := range append([]int{0}, ifIdxs...) {
					eval(r, Case{"empty", hex.EncodeToString(b), peers[0], bound, realIdx})
					eval(r, Case{"tagger", hex.EncodeToString(b), peers[1], bound, bound})
				}
			}
		}
	}
	// two datagrams in flight at once (relayed through different relay agents; direct ones with
	// forced buffer reuse): every reply mirrors the layers of ITS request, under all schedules
	// up to the preemption bound
	c16.RunSpecs(r, "C12", func(sp conc.Spec) bool {
		return sp.Proto == 6 && (strings.Contains(sp.Name, "S5c-") || strings.Contains(sp.Name, "S5-"))
	})
	// relay-forward without a relay message option; nested relay whose inner is empty
	for depth := 1; depth <= 2; depth++ {
		var inner []byte
		b := inner
		for i := depth - 1; i >= 0; i-- {
			l := pkt.Relay6{Type: 12, Link: addrs[1], Peer: addrs[2], Inner: b}
			b = l.Bytes()
		}
		eval(r, Case{"empty", hex.EncodeToString(b), peers[0], 0, realIdx})
	}
	// truncations of two seeds
	for _, seed := range [][]byte{build(1, true, true, 0, 0, 12), build(3, true, false, 2, 8, 12)} {
		for cut := 0; cut < len(seed); cut++ {
			eval(r, Case{"empty", hex.EncodeToString(seed[:cut]), peers[1], realIdx, realIdx})
		}
	}
}

func replay(r *ev.Run, raw json.RawMessage) {
	var c Case
	if err := json.Unmarshal(raw, &c); err != nil {
		r.Violate("C12/replay/bad-file", err.Error(), nil)
		return
	}
	eval(r, c)
}
