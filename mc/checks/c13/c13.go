// Package c13: plugins run in configured order until one stops the chain.
// Engine E3: all chains of synthetic plugins up to a length bound, loaded through the real
// plugins.LoadPlugins (and config.Load from generated YAML) and run through HandleMsg4/6.
package c13

import (
	"bytes"
	"encoding/json"
	"fmt"
	"net"
	"os"
	"path/filepath"
	"strings"
	"sync"
	"time"

	"github.com/coredhcp/coredhcp/config"
	"github.com/coredhcp/coredhcp/handler"
	"github.com/coredhcp/coredhcp/plugins"
	"github.com/insomniacslk/dhcp/dhcpv4"
	"github.com/insomniacslk/dhcp/dhcpv6"

	"verifmc/checks/c16"
	"verifmc/checks/optplug"
	"verifmc/conc"
	"verifmc/ev"
	"verifmc/pkt"
	"verifmc/reg"
	"verifmc/srv"
	"verifmc/verifsched"
)

func init() {
	reg.Register(&reg.Check{ID: "C13", Level: "exploration", Run: run, Replay: replay, Worker: func(a []string) int { return optplug.Worker("C13", a) }})
	builtinMonitor = optplug.MonitorBuiltins
}

// Item is one configured plugin: Kind in {s4,s6,sd,unknown,fail4,fail6}, Beh in
// {pass,modify,replace,stop,stopnil}.
type Item struct {
	Kind string `json:"kind"`
	Beh  string `json:"beh"`
}

type Case struct {
	Proto int    `json:"proto"`
	Chain []Item `json:"chain"`
	YAML  bool   `json:"via_yaml"`
	Relay int    `json:"relay_layers,omitempty"` // DHCPv6: the request arrives inside this many Relay-Forward layers
}

// relayDepth counts the Relay-Forward layers around a DHCPv6 message.
func relayDepth(d dhcpv6.DHCPv6) int {
	n := 0
	for d != nil && d.IsRelay() {
		n++
		d = d.(*dhcpv6.RelayMessage).Options.RelayMessage()
	}
	return n
}

// invocation log (the harness is single-threaded per case; guarded anyway)
type inv struct {
	tag     byte
	req     interface{}
	respIn  interface{}
	respOut interface{}
}

var (
	logMu sync.Mutex
	calls []inv
	setup []string
)

const trail4 = 224
const trail6 = 65280

func trailOf4(d *dhcpv4.DHCPv4) []byte {
	return append([]byte(nil), d.Options.Get(dhcpv4.GenericOptionCode(trail4))...)
}

func h4(beh string, tag byte) handler.Handler4 {
	return func(req, resp *dhcpv4.DHCPv4) (out *dhcpv4.DHCPv4, stop bool) {
		defer func() {
			logMu.Lock()
			calls = append(calls, inv{tag, req, resp, out})
			logMu.Unlock()
		}()
		add := func(d *dhcpv4.DHCPv4, base []byte) {
			d.UpdateOption(dhcpv4.OptGeneric(dhcpv4.GenericOptionCode(trail4), append(base, tag)))
		}
		if beh == "nil" {
			// no response and no stop: the chain goes on, later handlers see a nil response
			return nil, false
		}
		if resp == nil {
			// a predecessor returned nil without stopping: only the replacing behaviours have
			// something to return, the others hand the nil on (with their own stop flag)
			switch beh {
			case "replace", "replacestop":
				n, _ := dhcpv4.New()
				n.OpCode = dhcpv4.OpcodeBootReply
				n.TransactionID = req.TransactionID
				n.ClientHWAddr = req.ClientHWAddr
				n.Flags = 0x8000
				n.UpdateOption(dhcpv4.OptMessageType(dhcpv4.MessageTypeOffer))
				add(n, nil)
				return n, beh == "replacestop"
			case "slow":
				verifsched.Advance(time.Hour)
			}
			return nil, beh == "stop" || beh == "stopnil"
		}
		switch beh {
		case "pass":
			return resp, false
		case "modify":
			add(resp, trailOf4(resp))
			return resp, false
		case "slow":
			// a handler that takes an hour (virtual time under the cooperative scheduler)
			verifsched.Advance(time.Hour)
			add(resp, trailOf4(resp))
			return resp, false
		case "replace":
			n, _ := dhcpv4.New()
			n.OpCode = dhcpv4.OpcodeBootReply
			n.TransactionID = req.TransactionID
			n.ClientHWAddr = req.ClientHWAddr
			n.Flags = 0x8000
			n.UpdateOption(dhcpv4.OptMessageType(resp.MessageType()))
			add(n, trailOf4(resp))
			return n, false
		case "stop":
			add(resp, trailOf4(resp))
			return resp, true
		case "replacestop":
			n, _ := dhcpv4.New()
			n.OpCode = dhcpv4.OpcodeBootReply
			n.TransactionID = req.TransactionID
			n.ClientHWAddr = req.ClientHWAddr
			n.Flags = 0x8000
			n.UpdateOption(dhcpv4.OptMessageType(resp.MessageType()))
			add(n, trailOf4(resp))
			return n, true
		case "stopnil":
			return nil, true
		}
		panic("bad behaviour " + beh)
	}
}

func trailOf6(d dhcpv6.DHCPv6) []byte {
	if o := d.GetOneOption(dhcpv6.OptionCode(trail6)); o != nil {
		return append([]byte(nil), o.ToBytes()...)
	}
	return nil
}

func h6(beh string, tag byte) handler.Handler6 {
	return func(req, resp dhcpv6.DHCPv6) (out dhcpv6.DHCPv6, stop bool) {
		defer func() {
			logMu.Lock()
			calls = append(calls, inv{tag, req, resp, out})
			logMu.Unlock()
		}()
		add := func(d dhcpv6.DHCPv6, base []byte) {
			d.UpdateOption(&dhcpv6.OptionGeneric{OptionCode: dhcpv6.OptionCode(trail6), OptionData: append(base, tag)})
		}
		if beh == "nil" {
			return nil, false
		}
		if resp == nil {
			switch beh {
			case "replace", "replacestop":
				q, _ := req.GetInnerMessage()
				n := &dhcpv6.Message{MessageType: dhcpv6.MessageTypeAdvertise, TransactionID: q.TransactionID}
				n.AddOption(q.GetOneOption(dhcpv6.OptionClientID))
				add(n, nil)
				return n, beh == "replacestop"
			case "slow":
				verifsched.Advance(time.Hour)
			}
			return nil, beh == "stop" || beh == "stopnil"
		}
		switch beh {
		case "pass":
			return resp, false
		case "modify":
			add(resp, trailOf6(resp))
			return resp, false
		case "slow":
			verifsched.Advance(time.Hour)
			add(resp, trailOf6(resp))
			return resp, false
		case "replace":
			old := resp.(*dhcpv6.Message)
			n := &dhcpv6.Message{MessageType: old.MessageType, TransactionID: old.TransactionID}
			n.AddOption(old.GetOneOption(dhcpv6.OptionClientID))
			add(n, trailOf6(resp))
			return n, false
		case "stop":
			add(resp, trailOf6(resp))
			return resp, true
		case "replacestop":
			old := resp.(*dhcpv6.Message)
			n := &dhcpv6.Message{MessageType: old.MessageType, TransactionID: old.TransactionID}
			n.AddOption(old.GetOneOption(dhcpv6.OptionClientID))
			add(n, trailOf6(resp))
			return n, true
		case "stopnil":
			return nil, true
		}
		panic("bad behaviour " + beh)
	}
}

func parseArgs(args []string) (string, byte) {
	var tag int
	fmt.Sscan(args[1], &tag)
	return args[0], byte(tag)
}

var regOnce sync.Once

func register() {
	regOnce.Do(func() {
		s4 := func(args ...string) (handler.Handler4, error) {
			b, t := parseArgs(args)
			logMu.Lock()
			setup = append(setup, fmt.Sprintf("4:%d", t))
			logMu.Unlock()
			return h4(b, t), nil
		}
		s6 := func(args ...string) (handler.Handler6, error) {
			b, t := parseArgs(args)
			logMu.Lock()
			setup = append(setup, fmt.Sprintf("6:%d", t))
			logMu.Unlock()
			return h6(b, t), nil
		}
		f4 := func(args ...string) (handler.Handler4, error) { return nil, fmt.Errorf("synthetic setup failure") }
		f6 := func(args ...string) (handler.Handler6, error) { return nil, fmt.Errorf("synthetic setup failure") }
		// a failing setup may also hand back a usable handler next to the error (dns, router and
		// staticroute report a bad argument exactly like that): it still aborts start-up
		fh4 := func(args ...string) (handler.Handler4, error) {
			return h4("modify", 99), fmt.Errorf("synthetic setup failure")
		}
		fh6 := func(args ...string) (handler.Handler6, error) {
			return h6("modify", 99), fmt.Errorf("synthetic setup failure")
		}
		// synthetic plugins registered under the NAMES of the built-in ones: what a plugin is
		// called must not influence where it runs in the chain
		for _, n := range builtinNames {
			if err := plugins.RegisterPlugin(&plugins.Plugin{Name: n, Setup4: s4, Setup6: s6}); err != nil {
				panic(err)
			}
			pname["as-"+n] = n
		}
		for _, p := range []*plugins.Plugin{
			{Name: "vfailh4", Setup4: fh4, Setup6: s6}, {Name: "vfailh6", Setup4: s4, Setup6: fh6},
			{Name: "vs4", Setup4: s4}, {Name: "vs6", Setup6: s6}, {Name: "vsd", Setup4: s4, Setup6: s6},
			{Name: "vfail4", Setup4: f4, Setup6: s6}, {Name: "vfail6", Setup4: s4, Setup6: f6},
		} {
			if err := plugins.RegisterPlugin(p); err != nil {
				panic(err)
			}
		}
	})
}

var pname = map[string]string{"s4": "vs4", "s6": "vs6", "sd": "vsd", "unknown": "vnosuchplugin", "fail4": "vfail4", "fail6": "vfail6", "failh4": "vfailh4", "failh6": "vfailh6"}

var builtinNames = []string{"server_id", "file", "range", "prefix", "dns", "router", "netmask", "lease_time", "sleep", "nbp", "mtu", "searchdomains", "staticroute", "ipv6only", "autoconfigure"}

func supports(kind string, proto int) bool {
	switch kind {
	case "s4":
		return proto == 4
	case "s6":
		return proto == 6
	}
	return true
}

func eval(r *ev.Run, c Case) {
	register()
	logMu.Lock()
	calls, setup = nil, nil
	logMu.Unlock()
	var pcs []config.PluginConfig
	for i, it := range c.Chain {
		pcs = append(pcs, config.PluginConfig{Name: pname[it.Kind], Args: []string{it.Beh, fmt.Sprint(i + 1)}})
	}
	var conf *config.Config
	if c.YAML {
		var sb strings.Builder
		fmt.Fprintf(&sb, "server%d:\n  listen: '%s'\n  plugins:\n", c.Proto, map[int]string{4: "0.0.0.0:6767", 6: "[::]:5547"}[c.Proto])
		for _, p := range pcs {
			fmt.Fprintf(&sb, "    - %s: %s  %s\n", p.Name, p.Args[0], p.Args[1])
		}
		if len(pcs) == 0 {
			sb.WriteString("    []\n")
		}
		f := filepath.Join(srv.Scratch(), "c13.yml")
		os.WriteFile(f, []byte(sb.String()), 0o644)
		var err error
		conf, err = config.Load(f)
		if err != nil {
			if len(pcs) == 0 {
				r.Eval("yaml-empty-list-rejected") // C18: an empty plugins list is rejected
				return
			}
			r.Violate("C13/yaml-load-failed", "config.Load rejected a generated valid file: "+err.Error(), c)
			return
		}
	} else {
		sc := &config.ServerConfig{Plugins: pcs}
		conf = &config.Config{}
		if c.Proto == 4 {
			conf.Server4 = sc
		} else {
			conf.Server6 = sc
		}
	}
	// reference: which handlers exist, whether loading must fail
	wantErr := false
	var want []Item
	var wantTags []byte
	for i, it := range c.Chain {
		if it.Kind == "unknown" || ((it.Kind == "fail4" || it.Kind == "failh4") && c.Proto == 4) || ((it.Kind == "fail6" || it.Kind == "failh6") && c.Proto == 6) {
			wantErr = true
			break
		}
		if supports(it.Kind, c.Proto) {
			want = append(want, it)
			wantTags = append(wantTags, byte(i+1))
		}
	}
	hs4, hs6, err := plugins.LoadPlugins(conf)
	class := fmt.Sprintf("proto=%d/len=%d/yaml=%v", c.Proto, len(c.Chain), c.YAML)
	defer func() { r.Eval(class); r.Sample(class, c) }()
	if wantErr {
		class += "/load-error"
		if err == nil {
			r.Violate("C13/bad-plugin-accepted", "LoadPlugins succeeded although the chain names an unknown plugin or one whose setup fails", c)
		}
		return
	}
	if err != nil {
		r.Violate("C13/load-failed", "LoadPlugins failed on a valid chain: "+err.Error(), c)
		return
	}
	// setup order
	var wantSetup []string
	for _, t := range wantTags {
		wantSetup = append(wantSetup, fmt.Sprintf("%d:%d", c.Proto, t))
	}
	if fmt.Sprint(setup) != fmt.Sprint(wantSetup) {
		r.Violate("C13/instantiation", fmt.Sprintf("plugins instantiated %v, want %v", setup, wantSetup), c)
		return
	}
	if (c.Proto == 4 && len(hs4) != len(want)) || (c.Proto == 6 && len(hs6) != len(want)) {
		r.Violate("C13/handler-count", fmt.Sprintf("%d/%d handlers for %d supporting plugins", len(hs4), len(hs6), len(want)), c)
		return
	}
	// reference interpreter
	var expCalls []byte
	var expTrail []byte
	sent := true // false while the response in hand is nil
	for i, it := range want {
		expCalls = append(expCalls, wantTags[i])
		stop := false
		switch {
		case it.Beh == "nil":
			sent, expTrail = false, nil
		case !sent && (it.Beh == "replace" || it.Beh == "replacestop"):
			// a fresh response after a nil one
			sent, expTrail = true, []byte{wantTags[i]}
			stop = it.Beh == "replacestop"
		case !sent:
			stop = it.Beh == "stop" || it.Beh == "stopnil"
		case it.Beh == "modify" || it.Beh == "replace" || it.Beh == "slow":
			expTrail = append(expTrail, wantTags[i])
		case it.Beh == "stop" || it.Beh == "replacestop":
			expTrail = append(expTrail, wantTags[i])
			stop = true
		case it.Beh == "stopnil":
			sent, stop = false, true
		}
		if stop {
			break
		}
	}
	// run one request through the real server entry point
	var out srv.Out
	var gotTrail []byte
	if c.Proto == 4 {
		p := pkt.V4{Op: 1, HType: 1, HLen: 6, Xid: 0x13131313, Flags: 0x8000, Opts: []pkt.Opt4{{Code: 53, Data: []byte{1}}}}
		copy(p.CHAddr[:], []byte{2, 0, 0, 0, 0, 0x13})
		if srv.Instrumented() {
			// through the real Serve loop: what is dispatched is what arrives on the socket
			out = srv.Serve4(net.Interface{}, hs4, [][]byte{p.Bytes()}, 1)
		} else {
			out = srv.Run4(net.Interface{}, hs4, p.Bytes(), 1, nil)
		}
		if len(out.Sent) == 1 {
			rep, _ := pkt.ParseV4(out.Sent[0].Data)
			gotTrail, _ = rep.Get(trail4)
		}
	} else {
		m := pkt.Msg6{Type: 1, Xid: [3]byte{1, 3, 1}, Opts: []pkt.Opt6{{Code: 1, Data: []byte{0, 3, 0, 1, 2, 0, 0, 0, 0, 0x13}}}}
		dgram := m.Bytes()
		for l := 0; l < c.Relay; l++ {
			dgram = conc.Relayed6(dgram, fmt.Sprintf("2001:db8:%x::1", 0xa+l), fmt.Sprintf("fe80::%x", 0xa+l), fmt.Sprintf("relay-%d", l))
		}
		if srv.Instrumented() {
			out = srv.Serve6(net.Interface{}, hs6, [][]byte{dgram}, 1, &net.UDPAddr{IP: net.ParseIP("2001:db8::1"), Port: 546})
		} else {
			out = srv.Run6(net.Interface{}, hs6, dgram, 1, &net.UDPAddr{IP: net.ParseIP("2001:db8::1"), Port: 546})
		}
		if len(out.Sent) == 1 {
			rep, _ := pkt.Parse6(out.Sent[0].Data)
			if rep.Msg != nil {
				gotTrail, _ = pkt.Get6(rep.Msg.Opts, trail6)
			}
		}
	}
	if out.Panic != "" {
		r.Violate("C13/panic", "dispatch panicked: "+out.Panic, c)
		return
	}
	var gotCalls []byte
	for _, cl := range calls {
		gotCalls = append(gotCalls, cl.tag)
	}
	if !bytes.Equal(gotCalls, expCalls) {
		r.Violate("C13/invocation-order", fmt.Sprintf("handlers invoked %v, want %v", gotCalls, expCalls), c)
		return
	}
	for i, cl := range calls {
		if cl.req != calls[0].req {
			r.Violate("C13/request-identity", fmt.Sprintf("handler #%d did not receive the original request", i), c)
		}
		if d, ok := cl.req.(dhcpv6.DHCPv6); ok && c.Proto == 6 && relayDepth(d) != c.Relay {
			r.Violate("C13/request-identity/relay-layers", fmt.Sprintf("handler #%d received a request with %d relay layers; the request arrived inside %d", i, relayDepth(d), c.Relay), c)
		}
		if i > 0 && cl.respIn != calls[i-1].respOut {
			r.Violate("C13/response-threading", fmt.Sprintf("handler #%d did not receive its predecessor's response", i), c)
		}
	}
	if sent != (out.Replies() == 1) {
		r.Violate("C13/sent", fmt.Sprintf("replies sent=%d, want sent=%v", out.Replies(), sent), c)
		return
	}
	if sent && !bytes.Equal(gotTrail, expTrail) {
		r.Violate("C13/sent-response", fmt.Sprintf("response on the wire carries trail %v, want %v (the response returned last)", gotTrail, expTrail), c)
	}
	class += fmt.Sprintf("/calls=%d/sent=%v", len(gotCalls), sent)
}

var behs = []string{"pass", "modify", "replace", "stop", "replacestop", "stopnil", "slow", "nil"}

func run(r *ev.Run) {
	maxLen := 4
	if !r.Quick() {
		maxLen = 5
	}
	r.Rule(fmt.Sprintf("E3: all chains of length 0..%d over 8 handler behaviours {pass,modify,replace,stop,replace+stop,stop-with-nil,modify after an hour of (virtual) processing time, nil-without-stop (the chain goes on; a later handler may build a fresh response)} x protocol {4,6}, built through plugins.LoadPlugins and run through HandleMsg4/6; the same chains up to length %d loaded from generated YAML through config.Load; all placements of v4-only/v6-only/dual/unknown/failing-setup plugins in chains of length <=3; a synthetic plugin registered under the name of each of the 15 built-in plugins at every position of a 3-chain. Reference interpreter from the property text. Class = proto/len/yaml/#calls/sent.", maxLen, map[bool]int{true: 2, false: 5}[r.Quick()]))
	r.Assume("server.Start is executed only in the loopback binding run (one listener per protocol); multicast/interface-bound listeners are not opened")
	var rec func(prefix []Item, n int, f func([]Item))
	rec = func(prefix []Item, n int, f func([]Item)) {
		if len(prefix) == n {
			f(append([]Item{}, prefix...))
			return
		}
		for _, b := range behs {
			rec(append(prefix, Item{"sd", b}), n, f)
		}
	}
	for n := 0; n <= maxLen; n++ {
		rec(nil, n, func(ch []Item) {
			for _, proto := range []int{4, 6} {
				eval(r, Case{Proto: proto, Chain: ch})
				if n <= 2 || !r.Quick() {
					eval(r, Case{Proto: proto, Chain: ch, YAML: true})
				}
				if proto == 6 && n <= 3 {
					// the request arrives through one or two relay agents: handlers still get the
					// original (relayed) request
					eval(r, Case{Proto: proto, Chain: ch, Relay: 1})
					eval(r, Case{Proto: proto, Chain: ch, Relay: 2})
				}
			}
		})
	}
	// kinds
	kinds := []string{"s4", "s6", "sd", "unknown", "fail4", "fail6", "failh4", "failh6"}
	var rk func(prefix []Item, n int)
	rk = func(prefix []Item, n int) {
		if len(prefix) == n {
			for _, proto := range []int{4, 6} {
				eval(r, Case{Proto: proto, Chain: append([]Item{}, prefix...)})
			}
			return
		}
		for _, k := range kinds {
			for _, b := range []string{"modify", "stop"} {
				rk(append(prefix, Item{k, b}), n)
			}
		}
	}
	for n := 1; n <= 3; n++ {
		rk(nil, n)
	}
	// plugin names of the built-in plugins at every position of a 3-chain
	register()
	for _, n := range builtinNames {
		for pos := 0; pos < 3; pos++ {
			for _, beh := range []string{"modify", "stop"} {
				ch := []Item{{"sd", "modify"}, {"sd", "modify"}, {"sd", "modify"}}
				ch[pos] = Item{"as-" + n, beh}
				for _, proto := range []int{4, 6} {
					eval(r, Case{Proto: proto, Chain: ch})
				}
			}
		}
	}
	builtinMonitor(r)
	r.Rule("Binding run through the real server.Start with loopback sockets, both protocols: a request sent from inside the set-up function of each of two configured marker plugins (the chain is not complete yet) must stay unanswered; after Start returns the same request comes back with both markers in configured order.")
	startBinding(r, 6)
	startBinding(r, 4)
	r.Rule("E2: a retransmission (the identical datagram twice) through the real Serve loop under all schedules up to the preemption bound: every copy runs through the whole chain and is answered, as in a serial order.")
	c16.RunSpecs(r, "C13", func(sp conc.Spec) bool { return strings.Contains(sp.Name, "S1d-") })
	// ... and 1200 (thorough 6000) requests in flight at once: every one is dispatched
	c16.RunWide(r, "C13")
}

func replay(r *ev.Run, raw json.RawMessage) {
	var st struct {
		Start *struct{ Proto int } `json:"start"`
	}
	if json.Unmarshal(raw, &st) == nil && st.Start != nil {
		startBinding(r, st.Start.Proto)
		return
	}
	var c Case
	if err := json.Unmarshal(raw, &c); err != nil {
		r.Violate("C13/replay/bad-file", err.Error(), nil)
		return
	}
	eval(r, c)
}

// builtinMonitor: filled in by monitor.go (built-in handlers return nil only with stop).
var builtinMonitor = func(r *ev.Run) {}
