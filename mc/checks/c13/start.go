package c13

// Start-up order, through the real server.Start with real loopback sockets (a binding run:
// everything else in C13 drives HandleMsg4/6 directly). Two marker plugins are configured; the
// set-up function of each - i.e. a moment at which the chain is not complete yet - sends a
// well-formed request to the address the server is configured to listen on and waits briefly
// for an answer. Any answer received then was produced without the configured chain: no
// request may be answered before all configured plugins are in place. After Start returns the
// same request must come back carrying both markers in configured order (if nothing comes
// back within the budget the run is inconclusive, never a violation).

import (
	"bytes"
	"fmt"
	"net"
	"sync"
	"time"

	"github.com/coredhcp/coredhcp/config"
	"github.com/coredhcp/coredhcp/handler"
	"github.com/coredhcp/coredhcp/plugins"
	"github.com/coredhcp/coredhcp/server"
	"github.com/insomniacslk/dhcp/dhcpv4"
	"github.com/insomniacslk/dhcp/dhcpv6"

	"verifmc/conc"
	"verifmc/ev"
	"verifmc/pkt"
	"verifmc/reg"
)

var (
	startOnce  sync.Once
	startProbe = func(where string) {}
)

func markers4(rep []byte) []byte {
	p, err := pkt.ParseV4(rep)
	if err != nil {
		return nil
	}
	d, _ := p.Get(trail4)
	return d
}

func markers6(rep []byte) []byte {
	p, err := pkt.Parse6(rep)
	if err != nil || p.Msg == nil {
		return nil
	}
	d, _ := pkt.Get6(p.Msg.Opts, trail6)
	return d
}

func registerStart() {
	startOnce.Do(func() {
		for _, tag := range []byte{'a', 'b'} {
			tag := tag
			name := "c13start" + string(tag)
			p := &plugins.Plugin{Name: name,
				Setup6: func(args ...string) (handler.Handler6, error) {
					startProbe(name + "/v6")
					return func(req, resp dhcpv6.DHCPv6) (dhcpv6.DHCPv6, bool) {
						m := resp.(*dhcpv6.Message)
						var old []byte
						if o := m.GetOneOption(dhcpv6.OptionCode(trail6)); o != nil {
							old = o.ToBytes()
						}
						m.UpdateOption(&dhcpv6.OptionGeneric{OptionCode: dhcpv6.OptionCode(trail6), OptionData: append(append([]byte{}, old...), tag)})
						return m, false
					}, nil
				},
				Setup4: func(args ...string) (handler.Handler4, error) {
					startProbe(name + "/v4")
					return func(req, resp *dhcpv4.DHCPv4) (*dhcpv4.DHCPv4, bool) {
						old := resp.Options.Get(dhcpv4.GenericOptionCode(trail4))
						resp.UpdateOption(dhcpv4.OptGeneric(dhcpv4.GenericOptionCode(trail4), append(append([]byte{}, old...), tag)))
						return resp, false
					}, nil
				}}
			if err := plugins.RegisterPlugin(p); err != nil {
				panic(err)
			}
		}
	})
}

func freePort(network, addr string) int {
	c, err := net.ListenPacket(network, addr)
	if err != nil {
		return 0
	}
	defer c.Close()
	return c.LocalAddr().(*net.UDPAddr).Port
}

// startBinding runs the scenario for one protocol.
func startBinding(r *ev.Run, proto int) {
	registerStart()
	res := "ok"
	defer func() { r.Set(fmt.Sprintf("start_binding_v%d", proto), res) }()
	var client net.PacketConn
	var srvAddr *net.UDPAddr
	var request []byte
	var err error
	if proto == 6 {
		port := freePort("udp6", "[::1]:0")
		if port == 0 {
			res = "skipped: no IPv6 loopback"
			return
		}
		srvAddr = &net.UDPAddr{IP: net.ParseIP("::1"), Port: port}
		client, err = net.ListenPacket("udp6", "[::1]:0")
		request = conc.Solicit6([]byte{2, 0, 0, 0, 0x13, 1}, [3]byte{0x13, 0, 1}, false, true, "")
	} else {
		port := freePort("udp4", "127.0.0.1:0")
		srvAddr = &net.UDPAddr{IP: net.IPv4(127, 0, 0, 1), Port: port}
		// relayed request: the reply goes to giaddr on the server port, which needs no
		// link-level frame and no broadcast
		client, err = net.ListenPacket("udp4", "127.0.0.1:67")
		p := pkt.V4{Op: 1, HType: 1, HLen: 6, Xid: 0x13131313, GI: [4]byte{127, 0, 0, 1}, Opts: []pkt.Opt4{{Code: 53, Data: []byte{1}}}}
		copy(p.CHAddr[:], []byte{2, 0, 0, 0, 0x13, 1})
		request = p.Bytes()
	}
	if err != nil || srvAddr.Port == 0 {
		res = fmt.Sprintf("skipped: cannot open the client socket (%v)", err)
		return
	}
	defer client.Close()
	ask := func(wait time.Duration) []byte {
		client.SetReadDeadline(time.Now().Add(wait))
		if _, err := client.WriteTo(request, srvAddr); err != nil {
			return nil
		}
		buf := make([]byte, 2048)
		for {
			n, _, err := client.ReadFrom(buf)
			if err != nil {
				return nil
			}
			if n > 0 {
				return append([]byte{}, buf[:n]...)
			}
		}
	}
	type early struct {
		where string
		reply []byte
	}
	var earlies []early
	startProbe = func(where string) {
		if (proto == 6) != (where[len(where)-1] == '6') {
			return
		}
		end := reg.OpBegin("start-up probe during " + where)
		rep := ask(300 * time.Millisecond)
		end()
		r.Eval(fmt.Sprintf("start/v%d/probe-during-setup/answered=%v", proto, rep != nil))
		if rep != nil {
			earlies = append(earlies, early{where, rep})
		}
	}
	defer func() { startProbe = func(string) {} }()
	sc := &config.ServerConfig{Addresses: []net.UDPAddr{*srvAddr}, Plugins: []config.PluginConfig{{Name: "c13starta"}, {Name: "c13startb"}}}
	conf := &config.Config{}
	if proto == 6 {
		conf.Server6 = sc
	} else {
		conf.Server4 = sc
	}
	end := reg.OpBegin(fmt.Sprintf("server.Start on %v", srvAddr))
	srvs, err := server.Start(conf)
	end()
	if err != nil {
		res = "skipped: server.Start failed: " + err.Error()
		return
	}
	go srvs.Wait() // drains the listeners' error channel once they are closed
	defer srvs.Close()
	c := map[string]interface{}{"start": map[string]interface{}{"proto": proto}}
	for _, e := range earlies {
		var mk []byte
		if proto == 6 {
			mk = markers6(e.reply)
		} else {
			mk = markers4(e.reply)
		}
		r.Violate(fmt.Sprintf("C13/start/answered-before-chain-complete/v%d", proto), fmt.Sprintf("a request sent while the set-up of %s was still running was answered (reply of %d bytes carrying the markers %q of the configured chain [a b]): requests are served before all configured plugins are in place", e.where, len(e.reply), mk), c)
	}
	var rep []byte
	for i := 0; i < 20 && rep == nil; i++ {
		rep = ask(500 * time.Millisecond)
	}
	if rep == nil {
		res = "inconclusive: no reply within 10 s after Start returned"
		return
	}
	var mk []byte
	if proto == 6 {
		mk = markers6(rep)
	} else {
		mk = markers4(rep)
	}
	r.Eval(fmt.Sprintf("start/v%d/after-start/markers=%s", proto, mk))
	if !bytes.Equal(mk, []byte("ab")) {
		r.Violate(fmt.Sprintf("C13/start/chain-not-applied/v%d", proto), fmt.Sprintf("after server.Start returned, a request was answered with markers %q, configured chain is [a b]", mk), c)
	}
}
