// Package c14: server identifier in replies; traffic for other servers is dropped.
// Engine E3, one worker process per configuration (server_id keeps its id in package globals).
package c14

import (
	"bytes"
	"encoding/hex"
	"encoding/json"
	"fmt"
	"github.com/insomniacslk/dhcp/dhcpv4"
	"net"
	"sort"
	"strings"
	"time"

	"github.com/coredhcp/coredhcp/handler"
	"github.com/coredhcp/coredhcp/plugins/serverid"
	"github.com/insomniacslk/dhcp/dhcpv6"

	"verifmc/checks/optplug"
	"verifmc/ev"
	"verifmc/pkt"
	"verifmc/reg"
	"verifmc/srv"
)

func init() {
	reg.Register(&reg.Check{ID: "C14", Level: "exploration", Run: run, Replay: replay, Worker: worker})
}

type Case struct {
	Proto  int      `json:"proto"`
	Args   []string `json:"server_id_args"`
	Dgram  string   `json:"datagram_hex"`
	Direct bool     `json:"direct_handler_call,omitempty"`
}

var configs6 = [][]string{{"LL", "00:de:ad:be:ef:00"}, {"llt", "00:de:ad:be:ef:00"}, {"duid-ll", "02-00-00-00-00-01"}, {"DUID_LLT", "0200.0000.0001"}}
var configs4 = [][]string{{"192.0.2.1"}, {"::ffff:192.0.2.1"}, {"10.255.255.254"}}

func run(r *ev.Run) {
	r.Rule("E3, one process per server_id configuration. v6: configured DUID {LL,LLT x 2 MAC spellings} x message type {0..14,255} x Server Identifier {absent, equal, same MAC other DUID kind, other MAC, EN, UUID, equal-prefix-longer, equal-prefix-shorter, EN of 130/131/200 octets, LL of 1000, unknown type of 500, own padded to 131/300} x relay depth 0..2, both as a direct handler call (all types) and through HandleMsg6 (supported types, reply bytes inspected). v4: server_id {dotted, v4-mapped, other} x siaddr {0, own, other} x option 54 {absent, own, other, 0.0.0.0 (not asserted)} x giaddr {0, set} x option 82 {absent, circuit-id, server-id-override = other / own / malformed, with link selection} x {DISCOVER, REQUEST} through HandleMsg4. Reference: RFC 8415 s.16 table / the statement's v4 rule. Class = proto/type/sid variant/outcome.")
	r.Assume("requests with several Server Identifier options and option 54 = 0.0.0.0 are enumerated but not asserted")
	for _, a := range configs6 {
		res := reg.Spawn(r, "C14", 15*time.Minute, append([]string{"6"}, a...)...)
		if res.Hung {
			r.Capped("worker for server_id " + strings.Join(a, " ") + " exceeded its 15 min budget")
		} else if res.Died {
			r.Violate("C14/worker-died/v6", "worker for server_id "+strings.Join(a, " ")+" died: "+res.Output, Case{Proto: 6, Args: a})
		}
	}
	for _, a := range configs4 {
		res := reg.Spawn(r, "C14", 15*time.Minute, append([]string{"4"}, a...)...)
		if res.Hung {
			r.Capped("worker for server_id " + strings.Join(a, " ") + " exceeded its 15 min budget")
		} else if res.Died {
			r.Violate("C14/worker-died/v4", "worker for server_id "+strings.Join(a, " ")+" died: "+res.Output, Case{Proto: 4, Args: a})
		}
	}
}

func worker(args []string) int {
	r := ev.New("C14", reg.Tier, "exploration")
	if args[0] == "6" {
		run6(r, args[1:])
	} else {
		run4(r, args[1:])
	}
	return reg.WorkerExit(r)
}

func mac(s string) []byte { m, _ := net.ParseMAC(s); return m }

func duid(kind string, m []byte) []byte {
	if strings.Contains(strings.ToLower(kind), "llt") {
		return append([]byte{0, 1, 0, 1, 0, 0, 0, 0}, m...)
	}
	return append([]byte{0, 3, 0, 1}, m...)
}

var typeNames = map[byte]string{1: "solicit", 3: "request", 4: "confirm", 5: "renew", 6: "rebind", 8: "release", 9: "decline", 11: "inforeq"}

func run6(r *ev.Run, args []string) {
	h, err := serverid.Plugin.Setup6(args...)
	if err != nil {
		r.Violate("C14/setup6-failed", "valid server_id arguments rejected: "+err.Error(), Case{Proto: 6, Args: args})
		return
	}
	own := duid(args[0], mac(args[1]))
	otherKind := "llt"
	if strings.Contains(strings.ToLower(args[0]), "llt") {
		otherKind = "ll"
	}
	sids := []struct {
		name string
		data []byte
	}{
		{"absent", nil},
		{"equal", own},
		{"same-mac-other-kind", duid(otherKind, mac(args[1]))},
		{"other-mac", duid(args[0], []byte{2, 9, 9, 9, 9, 9})},
		{"en", []byte{0, 2, 0, 0, 0x9, 0xbf, 1, 2, 3, 4}},
		{"uuid", append([]byte{0, 4}, bytes.Repeat([]byte{7}, 16)...)},
		{"longer", append(append([]byte{}, own...), 0)},
		{"shorter", own[:len(own)-1]},
		// sizes around and far beyond the RFC 8415 s.11.1 maximum of 130 octets: however long,
		// an identifier that is not ours never makes the message ours
		{"en-130", append([]byte{0, 2, 0, 0, 0x9, 0xbf}, bytes.Repeat([]byte{0x5a}, 124)...)},
		{"en-131", append([]byte{0, 2, 0, 0, 0x9, 0xbf}, bytes.Repeat([]byte{0x5a}, 125)...)},
		{"en-200", append([]byte{0, 2, 0, 0, 0x9, 0xbf}, bytes.Repeat([]byte{0x5a}, 194)...)},
		{"ll-1000", append([]byte{0, 3, 0, 1}, bytes.Repeat([]byte{0x02}, 996)...)},
		{"unknown-type-500", append([]byte{0, 0xff}, bytes.Repeat([]byte{0x11}, 498)...)},
		{"own-padded-to-131", append(append([]byte{}, own...), make([]byte, 131-len(own))...)},
		{"own-padded-to-300", append(append([]byte{}, own...), make([]byte, 300-len(own))...)},
		// the own identifier with a single field changed: the time of a DUID-LLT (octets 4-7), the
		// hardware type, the last bit of the link-layer address
		{"own-one-bit-in-octet-7", flip(own, 7, 1)},
		{"own-one-bit-in-octet-4", flip(own, 4, 0x80)},
		{"own-hardware-type-changed", flip(own, 3, 0x07)},
		{"own-last-address-bit", flip(own, len(own)-1, 1)},
	}
	maxDepth := 1
	if reg.Tier == "thorough" {
		maxDepth = 2
	}
	types := []byte{0, 1, 2, 3, 4, 5, 6, 7, 8, 9, 10, 11, 12, 13, 14, 255}
	for _, t := range types {
		for _, sv := range sids {
			for depth := 0; depth <= maxDepth; depth++ {
				m := pkt.Msg6{Type: t, Xid: [3]byte{1, 4, t}, Opts: []pkt.Opt6{{Code: 1, Data: []byte{0, 3, 0, 1, 2, 0, 0, 0xaa, 0xbb, 0xcc}}}}
				if sv.data != nil {
					m.Opts = append(m.Opts, pkt.Opt6{Code: 2, Data: sv.data})
				}
				b := m.Bytes()
				for i := 0; i < depth; i++ {
					l := pkt.Relay6{Type: 12, Hop: byte(i), Inner: b}
					l.Link[0], l.Peer[0] = 0x20, 0xfe
					l.Peer[1] = 0x80
					b = l.Bytes()
				}
				// reference
				drop := false
				switch {
				case sv.data != nil && (t == 1 || t == 4 || t == 6):
					drop = true
				case sv.data == nil && (t == 3 || t == 5 || t == 9 || t == 8):
					drop = true
				case sv.data != nil && sv.name != "equal":
					drop = true
				}
				for _, direct := range []bool{true, false} {
					c := Case{6, args, hex.EncodeToString(b), direct}
					eval6(r, h, c, own, drop, fmt.Sprintf("v6/type=%s/sid=%s", tn(t), sv.name))
				}
			}
		}
	}
	irrelevant6(r, h, args, own)
}

// irrelevant6: the discard decision and the identifier in the reply depend on the message type
// and the Server Identifier option only - not on any other option of the message.
func irrelevant6(r *ev.Run, h handler.Handler6, args []string, own []byte) {
	other := duid(args[0], []byte{2, 9, 9, 9, 9, 9})
	for _, t := range []byte{1, 3, 5, 6, 11} {
		for _, sv := range []struct {
			name string
			data []byte
		}{{"absent", nil}, {"equal", own}, {"other-mac", other}} {
			drop := false
			switch {
			case sv.data != nil && (t == 1 || t == 4 || t == 6):
				drop = true
			case sv.data == nil && (t == 3 || t == 5 || t == 9 || t == 8):
				drop = true
			case sv.data != nil && sv.name != "equal":
				drop = true
			}
			for i, x := range pkt.Extra6() {
				m := pkt.Msg6{Type: t, Xid: [3]byte{1, 5, t}, Opts: []pkt.Opt6{{Code: 1, Data: []byte{0, 3, 0, 1, 2, 0, 0, 0xaa, 0xbb, 0xcc}}}}
				if i%2 == 0 {
					m.Opts = append(m.Opts, x)
				}
				if sv.data != nil {
					m.Opts = append(m.Opts, pkt.Opt6{Code: 2, Data: sv.data})
				}
				if i%2 == 1 {
					m.Opts = append(m.Opts, x)
				}
				b := m.Bytes()
				if _, err := dhcpv6.FromBytes(b); err != nil {
					continue // the codec rejects this payload: dropped before any plugin
				}
				c := Case{6, args, hex.EncodeToString(b), false}
				eval6(r, h, c, own, drop, fmt.Sprintf("v6/type=%s/sid=%s/extra-option", tn(t), sv.name))
			}
		}
	}
}

// flip returns a copy of b with mask XOR-ed into octet i.
func flip(b []byte, i int, mask byte) []byte {
	c := append([]byte{}, b...)
	if i >= 0 && i < len(c) {
		c[i] ^= mask
	}
	return c
}

func tn(t byte) string {
	if n, ok := typeNames[t]; ok {
		return n
	}
	return "other"
}

func eval6(r *ev.Run, h handler.Handler6, c Case, own []byte, drop bool, class string) {
	b, _ := hex.DecodeString(c.Dgram)
	var wire []byte // reply message bytes (innermost)
	replied := false
	if c.Direct {
		if b[0] == 12 || b[0] == 13 {
			// direct calls need a parsed request; relays with relay-typed inner messages do not parse
			if p, err := pkt.Parse6(b); err != nil || p.Msg == nil || p.Msg.Type == 12 || p.Msg.Type == 13 {
				return
			}
		} else if b[0] == 12 || b[0] == 13 {
			return
		}
		req, err := dhcpv6.FromBytes(b)
		if err != nil {
			return
		}
		inner, err := req.GetInnerMessage()
		if err != nil {
			return
		}
		resp := &dhcpv6.Message{MessageType: dhcpv6.MessageTypeReply, TransactionID: inner.TransactionID}
		out, stop := h(req, resp)
		if out == nil {
			if !stop {
				r.Violate("C14/nil-without-stop", "server_id handler returned nil response without stop", c)
			}
		} else {
			replied = true
			wire = out.ToBytes()
		}
		class += "/direct"
	} else {
		out := srv.Run6(net.Interface{}, []handler.Handler6{h}, b, 1, &net.UDPAddr{IP: net.ParseIP("2001:db8::9"), Port: 546})
		if out.Panic != "" {
			r.Violate("C14/panic", out.Panic, c)
			return
		}
		p, _ := pkt.Parse6(b)
		if p.Msg == nil || !map[byte]bool{1: true, 3: true, 4: true, 5: true, 6: true, 8: true, 11: true}[p.Msg.Type] {
			if len(out.Sent) > 0 {
				r.Violate("C14/answered-unsupported", "reply to an unsupported message type", c)
			}
			return
		}
		if len(out.Sent) == 1 {
			replied = true
			rp, err := pkt.Parse6(out.Sent[0].Data)
			if err != nil || rp.Msg == nil {
				r.Violate("C14/reply-unparseable", fmt.Sprint(err), c)
				return
			}
			wire = rp.Msg.Bytes()
		}
		class += "/server"
	}
	if replied {
		class += "/accepted"
	} else {
		class += "/dropped"
	}
	r.Eval(class)
	r.Sample(class, c)
	switch {
	case drop && replied:
		r.Violate("C14/v6/not-discarded/"+strings.SplitN(strings.SplitN(class, "sid=", 2)[1], "/", 2)[0], "message that RFC 8415 s.16 says to discard was answered ("+class+")", c)
	case !drop && !replied:
		r.Violate("C14/v6/wrongly-discarded", "valid message was discarded ("+class+")", c)
	case replied:
		m, err := pkt.Parse6(wire)
		if err != nil || m.Msg == nil {
			r.Violate("C14/reply-unparseable", fmt.Sprint(err), c)
			return
		}
		d, n := pkt.Get6(m.Msg.Opts, 2)
		if n != 1 || !bytes.Equal(d, own) {
			r.Violate("C14/v6/reply-server-id", fmt.Sprintf("reply carries %d Server Identifier option(s), first=%x, want exactly one = %x", n, d, own), c)
		}
	}
}

// replyKinds4: whatever kind of reply an earlier plugin has made of the stub (OFFER, ACK, NAK, a
// freshly built object), server_id stamps this server's address into siaddr and option 54.
func replyKinds4(r *ev.Run, sid handler.Handler4, args []string, own []byte) {
	for _, kind := range []string{"nak", "nak-fresh", "ack-fresh", "offer-with-other-siaddr"} {
		kind := kind
		shaper := func(req, resp *dhcpv4.DHCPv4) (*dhcpv4.DHCPv4, bool) {
			switch kind {
			case "nak":
				resp.UpdateOption(dhcpv4.OptMessageType(dhcpv4.MessageTypeNak))
			case "nak-fresh":
				n, _ := dhcpv4.NewReplyFromRequest(req, dhcpv4.WithMessageType(dhcpv4.MessageTypeNak))
				return n, false
			case "ack-fresh":
				n, _ := dhcpv4.NewReplyFromRequest(req, dhcpv4.WithMessageType(dhcpv4.MessageTypeAck))
				return n, false
			case "offer-with-other-siaddr":
				resp.ServerIPAddr = net.IPv4(198, 51, 100, 7).To4()
			}
			return resp, false
		}
		for _, mt := range []byte{1, 3} {
			for _, gi := range []bool{false, true} {
				p := pkt.V4{Op: 1, HType: 1, HLen: 6, Xid: 0x14141415, Flags: 0x8000, Opts: []pkt.Opt4{{Code: 53, Data: []byte{mt}}}}
				copy(p.CHAddr[:], []byte{2, 0, 0, 0, 1, 0x14})
				if gi {
					p.GI = [4]byte{10, 0, 0, 1}
				}
				c := Case{4, args, hex.EncodeToString(p.Bytes()), false}
				out := srv.Run4(net.Interface{}, []handler.Handler4{shaper, sid}, p.Bytes(), 1, nil)
				r.Eval(fmt.Sprintf("v4/reply-kind/%s/replies=%d", kind, len(out.Sent)))
				if out.Panic != "" {
					r.Violate("C14/panic", out.Panic, c)
					continue
				}
				if len(out.Sent) != 1 {
					continue
				}
				rep, err := pkt.ParseV4(out.Sent[0].Data)
				if err != nil {
					continue
				}
				d54, n54 := rep.Get(54)
				if !bytes.Equal(rep.SI[:], own) || n54 != 1 || !bytes.Equal(d54, own) {
					r.Violate("C14/v4/reply-server-id/reply-kind-"+kind, fmt.Sprintf("chain [plugin making the reply a %s, server_id %s]: reply (type %d) siaddr=%v option54=%v (x%d), want %v in both", kind, args[0], rep.MsgType(), net.IP(rep.SI[:]), net.IP(d54), n54, net.IP(own)), c)
				}
			}
		}
	}
}

func run4(r *ev.Run, args []string) {
	h, err := serverid.Plugin.Setup4(args...)
	if err != nil {
		r.Violate("C14/setup4-failed", "valid server_id argument rejected: "+err.Error(), Case{Proto: 4, Args: args})
		return
	}
	own := net.ParseIP(args[0]).To4()
	defer chains4(r, h, args, own)
	defer replyKinds4(r, h, args, own)
	other := []byte{198, 51, 100, 7}
	vals := map[string][]byte{"zero": {0, 0, 0, 0}, "own": own, "other": other}
	for _, mt := range []byte{1, 3} {
		for _, si := range []string{"zero", "own", "other"} {
			for _, o54 := range []string{"absent", "own", "other", "zero"} {
				for _, gi := range []bool{false, true} {
					// relay-agent information, incl. the RFC 5107 server-identifier-override and
					// RFC 3527 link-selection sub-options: whatever a relay puts there, this
					// server's identifier is the configured one
					for _, o82 := range [][]byte{nil, {1, 2, 'c', 'i'}, append([]byte{11, 4}, other...), append([]byte{11, 4}, own...), append(append([]byte{1, 2, 'c', 'i', 5, 4, 10, 1, 1, 0}, 11, 4), other...), {11, 0}, {11, 2, 1, 2}} {
						p := pkt.V4{Op: 1, HType: 1, HLen: 6, Xid: 0x14141414, Flags: 0x8000}
						copy(p.CHAddr[:], []byte{2, 0, 0, 0, 0, 0x14})
						copy(p.SI[:], vals[si])
						if gi {
							p.GI = [4]byte{10, 0, 0, 1}
						}
						p.Opts = []pkt.Opt4{{Code: 53, Data: []byte{mt}}}
						if o54 != "absent" {
							p.Opts = append(p.Opts, pkt.Opt4{Code: 54, Data: vals[o54]})
						}
						if o82 != nil {
							p.Opts = append(p.Opts, pkt.Opt4{Code: 82, Data: o82})
						}
						c := Case{4, args, hex.EncodeToString(p.Bytes()), false}
						eval4(r, h, c, own, si, o54, fmt.Sprintf("v4/type=%d/siaddr=%s/opt54=%s", mt, si, o54))
					}
				}
			}
		}
	}
}

// chains4: server_id followed by every other built-in plugin, one at a time:
// whatever the other plugin does, a reply that leaves must carry this server's identifier in
// siaddr and option 54.
func chains4(r *ev.Run, sid handler.Handler4, args []string, own []byte) {
	v4, _ := optplug.ValidArgs(srv.Scratch())
	names := make([]string, 0, len(v4))
	for n := range v4 {
		names = append(names, n)
	}
	sort.Strings(names)
	battery := optplug.Battery4([]byte{66, 67})
	for _, n := range names {
		h, err := optplug.Plugins[n].Setup4(v4[n]...)
		if err != nil {
			panic(fmt.Sprintf("%s: %v", n, err))
		}
		// server_id first, as in every documented configuration: a plugin that ends the chain
		// before server_id runs is a configuration choice, not a defect
		for _, order := range []string{"after"} {
			hs := []handler.Handler4{sid, h}
			if order == "before" {
				hs = []handler.Handler4{h, sid}
			}
			for _, d := range battery {
				c := Case{4, args, hex.EncodeToString(d), false}
				out := srv.Run4(net.Interface{}, hs, d, 1, nil)
				class := fmt.Sprintf("v4/chain/%s-%s-server_id/replies=%d", n, order, len(out.Sent))
				r.Eval(class)
				if out.Panic != "" {
					r.Violate("C14/panic", out.Panic, c)
					continue
				}
				if len(out.Sent) != 1 {
					continue
				}
				rep, err := pkt.ParseV4(out.Sent[0].Data)
				if err != nil {
					continue
				}
				d54, n54 := rep.Get(54)
				if !bytes.Equal(rep.SI[:], own) || n54 != 1 || !bytes.Equal(d54, own) {
					r.Violate("C14/v4/reply-server-id/chain-with-"+n, fmt.Sprintf("chain [server_id %s, %s %v] (%s %s server_id): reply siaddr=%v option54=%v (x%d), want %v in both", args[0], n, v4[n], n, order, net.IP(rep.SI[:]), net.IP(d54), n54, net.IP(own)), c)
				}
			}
		}
	}
}

func eval4(r *ev.Run, h handler.Handler4, c Case, own []byte, si, o54, class string) {
	b, _ := hex.DecodeString(c.Dgram)
	out := srv.Run4(net.Interface{}, []handler.Handler4{h}, b, 1, nil)
	if out.Panic != "" {
		r.Violate("C14/panic", out.Panic, c)
		return
	}
	replied := len(out.Sent) == 1
	if replied {
		class += "/accepted"
	} else {
		class += "/dropped"
	}
	r.Eval(class)
	r.Sample(class, c)
	if o54 == "zero" {
		return // the statement does not say whether 0.0.0.0 names a server
	}
	drop := si == "other" || o54 == "other"
	switch {
	case drop && replied:
		where := "siaddr"
		if si != "other" {
			where = "option54"
		}
		r.Violate("C14/v4/not-discarded/"+where, "DHCPv4 request naming a different server in "+where+" was answered ("+class+")", c)
	case !drop && !replied:
		r.Violate("C14/v4/wrongly-discarded", "DHCPv4 request for this server was discarded ("+class+")", c)
	case replied:
		rep, err := pkt.ParseV4(out.Sent[0].Data)
		if err != nil {
			r.Violate("C14/reply-unparseable", err.Error(), c)
			return
		}
		d, n := rep.Get(54)
		if !bytes.Equal(rep.SI[:], own) || n != 1 || !bytes.Equal(d, own) {
			r.Violate("C14/v4/reply-server-id", fmt.Sprintf("reply siaddr=%v option54=%v (x%d), want %v in both", net.IP(rep.SI[:]), net.IP(d), n, net.IP(own)), c)
		}
	}
}

func replay(r *ev.Run, raw json.RawMessage) {
	var c Case
	if err := json.Unmarshal(raw, &c); err != nil {
		r.Violate("C14/replay/bad-file", err.Error(), nil)
		return
	}
	// a replay re-runs the whole configuration in one worker (cheap) so that the global
	// server id is the one of the recorded case
	res := reg.Spawn(r, "C14", 5*time.Minute, append([]string{fmt.Sprint(c.Proto)}, c.Args...)...)
	if res.Died {
		r.Violate("C14/worker-died", res.Output, c)
	}
}
