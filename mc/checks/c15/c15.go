// Package c15: DHCPv4 reply addressing per RFC 2131 section 4.1.
// Engine E3: complete decision table through the real HandleMsg4 + sendEthernet frame sink.
package c15

import (
	"encoding/binary"
	"encoding/hex"
	"encoding/json"
	"fmt"
	"net"
	"strings"

	"github.com/coredhcp/coredhcp/handler"
	"github.com/insomniacslk/dhcp/dhcpv4"

	"verifmc/ev"
	"verifmc/pkt"
	"verifmc/reg"
	"verifmc/srv"
)

func init() {
	reg.Register(&reg.Check{ID: "C15", Level: "exploration", Run: run, Replay: replay})
}

type Case struct {
	GI, CI, YI string
	Bcast      bool
	Reply      string // OFFER | ACK | NAK
	Bound, Oob int
	HLen       int
	Opt82      string `json:",omitempty"` // "" | "typical" | "all-empty" | "all-one-byte"
	HType      int    `json:",omitempty"` // header htype; 0 here = Ethernet (1)
	XCode      int    `json:",omitempty"` // one more option of this code ...
	XData      string `json:",omitempty"` // ... and payload (hex)
	Hops, Secs int    `json:",omitempty"` // header fields the cascade does not look at
	RespFlag   string `json:",omitempty"` // what the plugin does to the REPLY's broadcast bit: "" | "set" | "clear"
	Peer       string `json:",omitempty"` // UDP source of the request: "" = 10.9.9.9:68 | "gi:1067" = the giaddr itself from a non-standard port | "gi:67" | "other:1067"
	RespGI     string `json:",omitempty"` // what the plugin leaves in the REPLY's giaddr: "" (as handed) | "zero" | "other"
	RespCI     string `json:",omitempty"` // ... and in the REPLY's ciaddr
	Fresh      bool   `json:",omitempty"` // the plugin returns a newly built reply object instead of the one it was handed
	Listen     string `json:",omitempty"` // the listener is built by the real listen4 from this listen address ("ip" or "ip%zone"); Bound is then what the spelling says
	ReqType    int    `json:",omitempty"` // DHCP message type of the request if not DISCOVER/REQUEST (INFORM 8, DECLINE 4, RELEASE 7, ...)
}

// opt82 builds relay-agent-information variants: whatever sub-options a relay adds, the
// reply of a relayed request goes to giaddr on the server port.
func opt82(kind string) []byte {
	var b []byte
	switch kind {
	case "typical":
		b = []byte{1, 4, 'c', 'i', 'r', 'c', 2, 2, 'r', 'i'}
	case "all-empty":
		for c := 1; c <= 60; c++ {
			b = append(b, byte(c), 0)
		}
	case "all-one-byte":
		for c := 1; c <= 40; c++ {
			b = append(b, byte(c), 1, byte(c))
		}
		b = append(b, 151, 0, 152, 0)
	}
	return b
}

func ip4(s string) [4]byte {
	var a [4]byte
	copy(a[:], net.ParseIP(s).To4())
	return a
}

func ifByIndex(idx int) net.Interface {
	for _, i := range srv.Ifaces() {
		if i.Index == idx {
			return i
		}
	}
	return net.Interface{}
}

var chaddr = []byte{0x02, 0x11, 0x22, 0x33, 0x44, 0x55}

// request builds the datagram of a case and the plugin that shapes its reply.
func request(c Case) []byte {
	p := pkt.V4{Op: 1, HType: 1, HLen: byte(c.HLen), Xid: 0xfeedbeef, GI: ip4(c.GI), CI: ip4(c.CI)}
	if c.HType != 0 {
		p.HType = byte(c.HType)
	}
	copy(p.CHAddr[:], chaddr)
	if c.Bcast {
		p.Flags = 0x8000
	}
	mt := byte(1)
	if c.Reply != "OFFER" {
		mt = 3
	}
	if c.ReqType != 0 {
		mt = byte(c.ReqType)
	}
	p.Opts = []pkt.Opt4{{Code: 53, Data: []byte{mt}}}
	if c.Opt82 != "" {
		p.Opts = append(p.Opts, pkt.Opt4{Code: 82, Data: opt82(c.Opt82)})
	}
	if c.XCode != 0 {
		d, _ := hex.DecodeString(c.XData)
		p.Opts = append(p.Opts, pkt.Opt4{Code: byte(c.XCode), Data: d})
	}
	p.Hops, p.Secs = byte(c.Hops), uint16(c.Secs)
	return p.Bytes()
}

// shaper returns a handler that shapes the reply according to the case *cur points to.
func shaper(cur *Case) handler.Handler4 {
	return func(req, resp *dhcpv4.DHCPv4) (*dhcpv4.DHCPv4, bool) {
		resp.YourIPAddr = net.ParseIP(cur.YI).To4()
		resp.ServerIPAddr = net.IPv4(192, 0, 2, 1).To4()
		if cur.Reply == "NAK" {
			resp.UpdateOption(dhcpv4.OptMessageType(dhcpv4.MessageTypeNak))
		}
		// the cascade follows the CLIENT's flag, whatever a plugin leaves in the reply
		switch cur.RespFlag {
		case "set":
			resp.SetBroadcast()
		case "clear":
			resp.SetUnicast()
		}
		// ... and the REQUEST's giaddr / ciaddr (a reply built from scratch carries neither)
		switch cur.RespGI {
		case "zero":
			resp.GatewayIPAddr = net.IPv4zero.To4()
		case "other":
			resp.GatewayIPAddr = net.IPv4(10, 77, 0, 1).To4()
		}
		switch cur.RespCI {
		case "zero":
			resp.ClientIPAddr = net.IPv4zero.To4()
		case "other":
			resp.ClientIPAddr = net.IPv4(10, 77, 0, 2).To4()
		}
		if cur.Fresh {
			// same content, another object: what is sent and where is decided by what the
			// chain RETURNED, not by the skeleton it was handed
			n, err := dhcpv4.FromBytes(resp.ToBytes())
			if err != nil {
				panic(err)
			}
			resp.UpdateOption(dhcpv4.OptMessageType(dhcpv4.MessageTypeInform)) // poison the skeleton
			resp.YourIPAddr = net.IPv4(203, 0, 113, 99).To4()
			return n, false
		}
		return resp, false
	}
}

func eval(r *ev.Run, c Case) {
	var ifi net.Interface
	if c.Bound != 0 {
		ifi = ifByIndex(c.Bound)
	}
	cc := c
	if c.Listen != "" {
		evalListen(r, c)
		return
	}
	peer := &net.UDPAddr{IP: net.IPv4(10, 9, 9, 9), Port: 68}
	switch c.Peer {
	case "gi:1067":
		peer = &net.UDPAddr{IP: net.ParseIP(c.GI).To4(), Port: 1067}
	case "gi:67":
		peer = &net.UDPAddr{IP: net.ParseIP(c.GI).To4(), Port: 67}
	case "other:1067":
		peer = &net.UDPAddr{IP: net.IPv4(10, 9, 9, 9), Port: 1067}
	}
	out := srv.Run4(ifi, []handler.Handler4{shaper(&cc)}, request(c), c.Oob, peer)
	judge(r, c, out, "", c)
}

// listenAddr parses "ip" / "ip%zone".
func listenAddr(sp string) *net.UDPAddr {
	ip, zone, _ := strings.Cut(sp, "%")
	return &net.UDPAddr{IP: net.ParseIP(ip), Zone: zone} // port 0: an ephemeral port, nothing is received on it
}

// evalListen: the listener comes out of the real listen4; it is bound exactly when the listen
// address names an interface (the socket is then bound to that device), whatever the address.
func evalListen(r *ev.Run, c Case) {
	cc := c
	a := listenAddr(c.Listen)
	out, bound, err := srv.Run4Listen(a, []handler.Handler4{shaper(&cc)}, request(c), c.Oob, &net.UDPAddr{IP: net.IPv4(10, 9, 9, 9), Port: 68})
	if err != nil {
		r.Eval("listen/" + c.Listen + "/cannot-listen")
		return
	}
	want := 0
	if a.Zone != "" {
		if ifi, err := net.InterfaceByName(a.Zone); err == nil {
			want = ifi.Index
		}
	}
	if bound.Index != want {
		r.Violate("C15/listen/bound-interface-differs-from-listen-address", fmt.Sprintf("listener built from listen address %q regards itself as bound to ifindex %d (%s); the address names ifindex %d (0 = no interface: the socket is not bound to a device and requests arrive on any interface)", c.Listen, bound.Index, bound.Name, want), c)
	}
	c.Bound = want
	judge(r, c, out, "listen/", c)
}

// judge compares what was emitted for case c with the cascade. hist prefixes the signature
// for cases judged as part of a history; rc is the replay case.
func judge(r *ev.Run, c Case, out srv.Out, hist string, rc interface{}) {
	if out.Panic != "" {
		r.Eval("panic")
		return
	}
	// reference cascade, straight from the statement
	zero := func(s string) bool { return net.ParseIP(s).IsUnspecified() }
	var wantIP net.IP
	wantPort, l2 := 68, false
	rule := ""
	switch {
	case !zero(c.GI):
		wantIP, wantPort, rule = net.ParseIP(c.GI), 67, "relay"
	case c.Reply == "NAK":
		wantIP, rule = net.IPv4bcast, "nak-broadcast"
	case !zero(c.CI):
		wantIP, rule = net.ParseIP(c.CI), "ciaddr-unicast"
	case c.Bcast:
		wantIP, rule = net.IPv4bcast, "flag-broadcast"
	default:
		wantIP, l2, rule = net.ParseIP(c.YI), true, "l2-unicast"
	}
	pinned := l2 || wantIP.Equal(net.IPv4bcast) || wantIP.IsLinkLocalUnicast()
	wantIf := c.Bound
	if wantIf == 0 {
		wantIf = c.Oob
	}
	class := fmt.Sprintf("%s/pinned=%v/bound=%v/sent=%d/frames=%d", rule, pinned, c.Bound != 0, len(out.Sent), len(out.Frames))
	class = hist + class
	defer func() { r.Eval(class); r.Sample(class, rc) }()
	bad := func(sig, what string) {
		r.Violate("C15/"+hist+rule+"/"+sig, fmt.Sprintf("%s (giaddr=%s ciaddr=%s bcast=%v reply=%s yiaddr=%s bound=%d oob=%d)", what, c.GI, c.CI, c.Bcast, c.Reply, c.YI, c.Bound, c.Oob), rc)
	}
	if out.Replies() > 1 {
		bad("more-than-one-reply", fmt.Sprintf("%d datagrams/frames emitted", out.Replies()))
		return
	}
	if out.Replies() == 0 {
		return
	}
	if l2 {
		if len(out.Frames) != 1 {
			bad("not-link-level", fmt.Sprintf("reply went through the UDP socket to %v instead of a link-level unicast", out.Sent[0].Peer))
			return
		}
		f := out.Frames[0]
		d := f.Data
		if len(d) < 42 {
			bad("short-frame", "frame shorter than eth+ip+udp headers")
			return
		}
		if f.Iface.Index != wantIf {
			bad("wrong-interface", fmt.Sprintf("frame leaves on ifindex %d, want %d", f.Iface.Index, wantIf))
		}
		if string(d[0:6]) != string(chaddr) {
			bad("dst-mac", fmt.Sprintf("frame dst MAC %x, want client hardware address %x", d[0:6], chaddr))
		}
		if binary.BigEndian.Uint16(d[12:]) != 0x0800 || d[14]>>4 != 4 || d[23] != 17 {
			bad("not-ipv4-udp", "frame is not IPv4/UDP")
			return
		}
		ihl := int(d[14]&0xf) * 4
		if !net.IP(d[30:34]).Equal(wantIP) {
			bad("dst-ip", fmt.Sprintf("frame dst IP %v, want offered address %v", net.IP(d[30:34]), wantIP))
		}
		u := d[14+ihl:]
		if sp, dp := binary.BigEndian.Uint16(u), binary.BigEndian.Uint16(u[2:]); sp != 67 || dp != 68 {
			bad("ports", fmt.Sprintf("frame UDP ports %d->%d, want 67->68", sp, dp))
		}
		rep, err := pkt.ParseV4(u[8:])
		if err != nil || rep.Xid != 0xfeedbeef || rep.Op != 2 || !net.IP(rep.YI[:]).Equal(wantIP) {
			bad("payload", fmt.Sprintf("frame payload is not the reply (err=%v xid=%x op=%d yiaddr=%v)", err, rep.Xid, rep.Op, net.IP(rep.YI[:])))
		}
		return
	}
	if len(out.Sent) != 1 {
		bad("unexpected-link-level", "reply sent as a link-level frame where the cascade asks for a UDP datagram")
		return
	}
	s := out.Sent[0]
	ua, ok := s.Peer.(*net.UDPAddr)
	if !ok || !ua.IP.Equal(wantIP) {
		bad("destination", fmt.Sprintf("reply sent to %v, want %v", s.Peer, wantIP))
	}
	if ok && ua.Port != wantPort {
		bad("port", fmt.Sprintf("reply sent to port %d, want %d", ua.Port, wantPort))
	}
	if pinned {
		if !s.HasCM || s.IfIndex != wantIf {
			bad("not-pinned", fmt.Sprintf("broadcast/link-local reply pinned to ifindex %d (control message %v), want %d", s.IfIndex, s.HasCM, wantIf))
		}
	} else if s.HasCM && s.IfIndex != 0 {
		bad("pinned-routable", fmt.Sprintf("reply to a routable address is pinned to ifindex %d", s.IfIndex))
	}
}

func run(r *ev.Run) {
	addrs := []string{"0.0.0.0", "10.1.2.3", "169.254.7.7", "255.255.255.255"}
	yis := []string{"0.0.0.0", "10.0.0.50", "169.254.9.9"}
	var idx []int
	for _, i := range srv.Ifaces() {
		idx = append(idx, i.Index)
	}
	if r.Quick() && len(idx) > 2 {
		idx = idx[:2]
	}
	r.Rule(fmt.Sprintf("E3 complete decision table through the real HandleMsg4: giaddr x ciaddr in {0,routable,link-local,broadcast} x broadcast flag x reply{OFFER,ACK,NAK by plugin} x yiaddr{0,routable,link-local} x listener{unbound, bound to each of %d interfaces} x receiving interface index x htype {1, 6, 32, 255} x option 82 variants; the reply's own giaddr/ciaddr/broadcast bit as left by a plugin {as handed, zeroed, another value} (the cascade reads the REQUEST); reference = the RFC 2131 4.1 cascade as worded in the property. UDP replies observed at WriteTo, link-level replies as the serialised Ethernet frame. Plus histories: every ordered pair of 16 representative requests (one per cascade rule x two receiving interfaces) on ONE unbound listener and of 8 on one bound listener, both replies judged. Class = cascade rule/pinned/bound/#sent/#frames.", len(idx)))
	r.Assume(fmt.Sprintf("host interfaces %v; 'unbound listener without control message' only for unpinned destinations (no defined answer otherwise, covered by C01); AF_PACKET syscalls after the frame is built are not executed", idx))
	for _, gi := range addrs {
		for _, ci := range addrs {
			for _, bc := range []bool{false, true} {
				for _, rep := range []string{"OFFER", "ACK", "NAK"} {
					for _, yi := range yis {
						for _, bound := range append([]int{0}, idx...) {
							for _, oob := range append([]int{0}, idx...) {
								if bound != 0 && oob != 0 && oob != bound {
									continue // a bound socket only receives on its interface
								}
								c := Case{GI: gi, CI: ci, YI: yi, Bcast: bc, Reply: rep, Bound: bound, Oob: oob, HLen: 6}
								if bound == 0 && oob == 0 {
									// only where the answer is defined: routable destination
									z := func(s string) bool { return s == "0.0.0.0" }
									routable := (!z(gi) && gi == "10.1.2.3") || (z(gi) && rep != "NAK" && ci == "10.1.2.3")
									if !routable {
										continue
									}
								}
								eval(r, c)
								if gi != "0.0.0.0" || ci == "0.0.0.0" {
									for _, k := range []string{"typical", "all-empty", "all-one-byte"} {
										c.Opt82 = k
										eval(r, c)
									}
									c.Opt82 = ""
								}
								// the cascade does not look at the hardware type the client announces
								for _, ht := range []int{6, 32, 255} {
									c.HType = ht
									eval(r, c)
								}
							}
						}
					}
				}
			}
		}
	}
	// binding run: listeners built by the real listen4 from listen addresses, as the configuration
	// gives them: wildcard / an own address of each interface, each without and with %interface
	var spellings []string
	var ups []int // receiving interfaces of the binding run: the ones that are up
	for _, ifi := range srv.Ifaces() {
		if ifi.Flags&net.FlagUp != 0 {
			ups = append(ups, ifi.Index)
		}
	}
	for _, ifi := range srv.Ifaces() {
		own := ""
		if as, err := ifi.Addrs(); err == nil {
			for _, a := range as {
				if n, ok := a.(*net.IPNet); ok && n.IP.To4() != nil {
					own = n.IP.String()
					break
				}
			}
		}
		if ifi.Flags&net.FlagUp == 0 {
			continue
		}
		spellings = append(spellings, "0.0.0.0%"+ifi.Name)
		if own != "" {
			spellings = append(spellings, own, own+"%"+ifi.Name)
		}
	}
	spellings = append([]string{"0.0.0.0"}, spellings...)
	r.Rule(fmt.Sprintf("Binding run: for each of the listen addresses %v the listener is built by the real listen4 (real socket, ephemeral port); it must regard itself as bound exactly to the interface the address names, and the decision table giaddr x ciaddr x flag x reply type x yiaddr x receiving interface is judged on it.", spellings))
	for _, sp := range spellings {
		a := listenAddr(sp)
		for _, gi := range addrs {
			for _, ci := range addrs {
				for _, bc := range []bool{false, true} {
					for _, rep := range []string{"OFFER", "ACK", "NAK"} {
						for _, yi := range yis {
							for _, oob := range ups {
								if a.Zone != "" {
									if ifi, err := net.InterfaceByName(a.Zone); err != nil || ifi.Index != oob {
										continue // a socket bound to a device only receives on it
									}
								}
								eval(r, Case{GI: gi, CI: ci, YI: yi, Bcast: bc, Reply: rep, Oob: oob, HLen: 6, Listen: sp})
							}
						}
					}
				}
			}
		}
	}
	// other request types: whatever the server chooses to answer is addressed by the same cascade
	if len(idx) > 0 {
		for _, rt := range []int{8, 4, 7, 2, 5, 13} {
			for _, gi := range []string{"0.0.0.0", "10.1.2.3"} {
				for _, ci := range []string{"0.0.0.0", "10.0.7.50"} {
					for _, bc := range []bool{false, true} {
						for _, rep := range []string{"ACK", "NAK"} {
							eval(r, Case{GI: gi, CI: ci, YI: "10.0.0.50", Bcast: bc, Reply: rep, Oob: idx[0], HLen: 6, ReqType: rt})
						}
					}
				}
			}
		}
	}
	// the plugin returns a fresh object (and leaves a misleading skeleton behind)
	if len(idx) > 0 {
		for _, gi := range []string{"0.0.0.0", "10.1.2.3"} {
			for _, ci := range []string{"0.0.0.0", "10.1.2.3", "169.254.7.7"} {
				for _, bc := range []bool{false, true} {
					for _, rep := range []string{"OFFER", "ACK", "NAK"} {
						for _, yi := range yis {
							for _, bound := range []int{0, idx[0]} {
								eval(r, Case{GI: gi, CI: ci, YI: yi, Bcast: bc, Reply: rep, Bound: bound, Oob: idx[0], HLen: 6, Fresh: true})
							}
						}
					}
				}
			}
		}
	}
	// the UDP source of the request is not part of the cascade: a relay that forwards from its
	// giaddr address and an unusual source port is still answered on the server port
	if len(idx) > 0 {
		for _, gi := range []string{"0.0.0.0", "10.1.2.3", "169.254.7.7"} {
			for _, ci := range []string{"0.0.0.0", "10.1.2.3"} {
				for _, bc := range []bool{false, true} {
					for _, rep := range []string{"OFFER", "ACK", "NAK"} {
						for _, pe := range []string{"gi:1067", "gi:67", "other:1067"} {
							for _, o82 := range []string{"", "typical"} {
								for _, bound := range []int{0, idx[0]} {
									eval(r, Case{GI: gi, CI: ci, YI: "10.0.0.50", Bcast: bc, Reply: rep, Bound: bound, Oob: idx[0], HLen: 6, Peer: pe, Opt82: o82})
								}
							}
						}
					}
				}
			}
		}
	}
	// the reply's own giaddr / ciaddr, as left by a plugin (a reply built from scratch has none)
	if len(idx) > 0 {
		for _, gi := range []string{"0.0.0.0", "10.1.2.3", "169.254.7.7"} {
			for _, ci := range []string{"0.0.0.0", "10.1.2.3", "169.254.7.7"} {
				for _, bc := range []bool{false, true} {
					for _, rep := range []string{"OFFER", "ACK", "NAK"} {
						for _, rg := range []string{"", "zero", "other"} {
							for _, rc := range []string{"", "zero", "other"} {
								if rg == "" && rc == "" {
									continue
								}
								for _, fresh := range []bool{false, true} {
									for _, bound := range []int{0, idx[0]} {
										eval(r, Case{GI: gi, CI: ci, YI: "10.0.0.50", Bcast: bc, Reply: rep, Bound: bound, Oob: idx[0], HLen: 6, RespGI: rg, RespCI: rc, Fresh: fresh})
									}
								}
							}
						}
					}
				}
			}
		}
	}
	// the reply's own broadcast bit, as left by a plugin
	if len(idx) > 0 {
		for _, gi := range []string{"0.0.0.0", "10.1.2.3"} {
			for _, ci := range []string{"0.0.0.0", "10.1.2.3"} {
				for _, bc := range []bool{false, true} {
					for _, rep := range []string{"OFFER", "ACK", "NAK"} {
						for _, rf := range []string{"set", "clear"} {
							for _, bound := range []int{0, idx[0]} {
								eval(r, Case{GI: gi, CI: ci, YI: "10.0.0.50", Bcast: bc, Reply: rep, Bound: bound, Oob: idx[0], HLen: 6, RespFlag: rf})
							}
						}
					}
				}
			}
		}
	}
	// fields the cascade does not name: one representative per rule (x receiving interface)
	// with every other option code in three payload shapes, and hops/secs values
	if len(idx) > 0 {
		for _, base := range []Case{
			{GI: "10.1.2.3", CI: "0.0.0.0", YI: "10.0.0.50", Reply: "OFFER", HLen: 6},
			{GI: "0.0.0.0", CI: "10.1.2.3", YI: "0.0.0.0", Reply: "NAK", HLen: 6},
			{GI: "0.0.0.0", CI: "10.1.2.3", YI: "10.0.0.50", Reply: "ACK", HLen: 6},
			{GI: "0.0.0.0", CI: "0.0.0.0", YI: "10.0.0.50", Reply: "OFFER", Bcast: true, HLen: 6},
			{GI: "0.0.0.0", CI: "0.0.0.0", YI: "10.0.0.50", Reply: "OFFER", HLen: 6},
			{GI: "0.0.0.0", CI: "0.0.0.0", YI: "10.0.0.50", Reply: "ACK", HLen: 6},
		} {
			base.Oob = idx[0]
			for _, x := range pkt.Extra4(82) {
				c := base
				c.XCode, c.XData = int(x.Code), hex.EncodeToString(x.Data)
				eval(r, c)
			}
			for _, hs := range [][2]int{{1, 0}, {16, 0}, {255, 65535}, {0, 1}} {
				c := base
				c.Hops, c.Secs = hs[0], hs[1]
				eval(r, c)
			}
		}
	}
	// histories on one listener
	var hidx []int
	for _, i := range srv.Ifaces() {
		if len(i.HardwareAddr) == 6 {
			hidx = append(hidx, i.Index)
		}
	}
	for _, i := range srv.Ifaces() {
		if len(i.HardwareAddr) != 6 {
			hidx = append(hidx, i.Index)
		}
	}
	histories(r, hidx)
}

// PairCase is a history of two requests on ONE listener.
type PairCase struct {
	First  Case `json:"first"`
	Second Case `json:"second"`
}

func evalPair(r *ev.Run, pc PairCase) {
	var ifi net.Interface
	if pc.First.Bound != 0 {
		ifi = ifByIndex(pc.First.Bound)
	}
	var cur Case
	l := srv.NewL4(ifi, []handler.Handler4{shaper(&cur)})
	defer l.Close()
	cur = pc.First
	out1 := l.Handle(request(pc.First), pc.First.Oob)
	judge(r, pc.First, out1, "history-1st/", pc)
	cur = pc.Second
	out2 := l.Handle(request(pc.Second), pc.Second.Oob)
	judge(r, pc.Second, out2, "history-2nd/", pc)
}

// histories: every ordered pair of representative requests (one per cascade rule, from two
// different receiving interfaces) on one unbound and one bound listener: what a listener
// did for one datagram must not influence where the next reply goes.
func histories(r *ev.Run, idx []int) {
	if len(idx) < 2 {
		return
	}
	reps := []Case{
		{GI: "10.1.2.3", CI: "0.0.0.0", YI: "10.0.0.50", Reply: "OFFER", HLen: 6},
		{GI: "255.255.255.255", CI: "0.0.0.0", YI: "10.0.0.50", Reply: "ACK", HLen: 6},
		{GI: "0.0.0.0", CI: "10.1.2.3", YI: "0.0.0.0", Reply: "NAK", HLen: 6},
		{GI: "0.0.0.0", CI: "10.1.2.3", YI: "10.0.0.50", Reply: "ACK", HLen: 6},
		{GI: "0.0.0.0", CI: "169.254.7.7", YI: "10.0.0.50", Reply: "ACK", HLen: 6},
		{GI: "0.0.0.0", CI: "0.0.0.0", YI: "10.0.0.50", Reply: "OFFER", Bcast: true, HLen: 6},
		{GI: "0.0.0.0", CI: "0.0.0.0", YI: "10.0.0.50", Reply: "OFFER", HLen: 6},
		{GI: "0.0.0.0", CI: "0.0.0.0", YI: "169.254.9.9", Reply: "ACK", HLen: 6},
	}
	var cases []Case
	for _, c := range reps {
		for _, oob := range idx[:2] {
			c.Oob = oob
			cases = append(cases, c)
		}
	}
	for _, a := range cases {
		for _, b := range cases {
			evalPair(r, PairCase{a, b})
		}
	}
	// bound listener: the receiving index equals the bound one
	for _, a := range reps {
		for _, b := range reps {
			a.Bound, a.Oob, b.Bound, b.Oob = idx[1], idx[1], idx[1], idx[1]
			evalPair(r, PairCase{a, b})
		}
	}
}

func replay(r *ev.Run, raw json.RawMessage) {
	var pc PairCase
	if json.Unmarshal(raw, &pc) == nil && pc.Second.Reply != "" {
		evalPair(r, pc)
		return
	}
	var c Case
	if err := json.Unmarshal(raw, &c); err != nil {
		r.Violate("C15/replay/bad-file", err.Error(), nil)
		return
	}
	eval(r, c)
	_ = hex.EncodeToString
}
