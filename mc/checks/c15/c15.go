// Package c15: DHCPv4 reply addressing per RFC 2131 section 4.1.
// Engine E3: complete decision table through the real HandleMsg4 + sendEthernet frame sink.
package c15

import (
	"encoding/binary"
	"encoding/hex"
	"encoding/json"
	"fmt"
	"net"

	"github.com/coredhcp/coredhcp/handler"
	"github.com/insomniacslk/dhcp/dhcpv4"

	"verifmc/ev"
	"verifmc/pkt"
	"verifmc/reg"
	"verifmc/srv"
)

func init() {
	reg.Register(&reg.Check{ID: "C15", Level: "exploration", Run: run, Replay: replay})
}

type Case struct {
	GI, CI, YI string
	Bcast      bool
	Reply      string // OFFER | ACK | NAK
	Bound, Oob int
	HLen       int
}

func ip4(s string) [4]byte {
	var a [4]byte
	copy(a[:], net.ParseIP(s).To4())
	return a
}

func ifByIndex(idx int) net.Interface {
	for _, i := range srv.Ifaces() {
		if i.Index == idx {
			return i
		}
	}
	return net.Interface{}
}

var chaddr = []byte{0x02, 0x11, 0x22, 0x33, 0x44, 0x55}

func eval(r *ev.Run, c Case) {
	p := pkt.V4{Op: 1, HType: 1, HLen: byte(c.HLen), Xid: 0xfeedbeef, GI: ip4(c.GI), CI: ip4(c.CI)}
	copy(p.CHAddr[:], chaddr)
	if c.Bcast {
		p.Flags = 0x8000
	}
	mt := byte(1)
	if c.Reply != "OFFER" {
		mt = 3
	}
	p.Opts = []pkt.Opt4{{Code: 53, Data: []byte{mt}}}
	yi := net.ParseIP(c.YI).To4()
	hs := []handler.Handler4{func(req, resp *dhcpv4.DHCPv4) (*dhcpv4.DHCPv4, bool) {
		resp.YourIPAddr = yi
		resp.ServerIPAddr = net.IPv4(192, 0, 2, 1).To4()
		if c.Reply == "NAK" {
			resp.UpdateOption(dhcpv4.OptMessageType(dhcpv4.MessageTypeNak))
		}
		return resp, false
	}}
	var ifi net.Interface
	if c.Bound != 0 {
		ifi = ifByIndex(c.Bound)
	}
	out := srv.Run4(ifi, hs, p.Bytes(), c.Oob, &net.UDPAddr{IP: net.IPv4(10, 9, 9, 9), Port: 68})
	if out.Panic != "" {
		r.Eval("panic")
		return
	}
	// reference cascade, straight from the statement
	zero := func(s string) bool { return net.ParseIP(s).IsUnspecified() }
	var wantIP net.IP
	wantPort, l2 := 68, false
	rule := ""
	switch {
	case !zero(c.GI):
		wantIP, wantPort, rule = net.ParseIP(c.GI), 67, "relay"
	case c.Reply == "NAK":
		wantIP, rule = net.IPv4bcast, "nak-broadcast"
	case !zero(c.CI):
		wantIP, rule = net.ParseIP(c.CI), "ciaddr-unicast"
	case c.Bcast:
		wantIP, rule = net.IPv4bcast, "flag-broadcast"
	default:
		wantIP, l2, rule = net.ParseIP(c.YI), true, "l2-unicast"
	}
	pinned := l2 || wantIP.Equal(net.IPv4bcast) || wantIP.IsLinkLocalUnicast()
	wantIf := c.Bound
	if wantIf == 0 {
		wantIf = c.Oob
	}
	class := fmt.Sprintf("%s/pinned=%v/bound=%v/sent=%d/frames=%d", rule, pinned, c.Bound != 0, len(out.Sent), len(out.Frames))
	defer func() { r.Eval(class); r.Sample(class, c) }()
	bad := func(sig, what string) {
		r.Violate("C15/"+rule+"/"+sig, fmt.Sprintf("%s (giaddr=%s ciaddr=%s bcast=%v reply=%s yiaddr=%s bound=%d oob=%d)", what, c.GI, c.CI, c.Bcast, c.Reply, c.YI, c.Bound, c.Oob), c)
	}
	if out.Replies() > 1 {
		bad("more-than-one-reply", fmt.Sprintf("%d datagrams/frames emitted", out.Replies()))
		return
	}
	if out.Replies() == 0 {
		return
	}
	if l2 {
		if len(out.Frames) != 1 {
			bad("not-link-level", fmt.Sprintf("reply went through the UDP socket to %v instead of a link-level unicast", out.Sent[0].Peer))
			return
		}
		f := out.Frames[0]
		d := f.Data
		if len(d) < 42 {
			bad("short-frame", "frame shorter than eth+ip+udp headers")
			return
		}
		if f.Iface.Index != wantIf {
			bad("wrong-interface", fmt.Sprintf("frame leaves on ifindex %d, want %d", f.Iface.Index, wantIf))
		}
		if string(d[0:6]) != string(chaddr) {
			bad("dst-mac", fmt.Sprintf("frame dst MAC %x, want client hardware address %x", d[0:6], chaddr))
		}
		if binary.BigEndian.Uint16(d[12:]) != 0x0800 || d[14]>>4 != 4 || d[23] != 17 {
			bad("not-ipv4-udp", "frame is not IPv4/UDP")
			return
		}
		ihl := int(d[14]&0xf) * 4
		if !net.IP(d[30:34]).Equal(wantIP) {
			bad("dst-ip", fmt.Sprintf("frame dst IP %v, want offered address %v", net.IP(d[30:34]), wantIP))
		}
		u := d[14+ihl:]
		if sp, dp := binary.BigEndian.Uint16(u), binary.BigEndian.Uint16(u[2:]); sp != 67 || dp != 68 {
			bad("ports", fmt.Sprintf("frame UDP ports %d->%d, want 67->68", sp, dp))
		}
		rep, err := pkt.ParseV4(u[8:])
		if err != nil || rep.Xid != 0xfeedbeef || rep.Op != 2 || !net.IP(rep.YI[:]).Equal(wantIP) {
			bad("payload", fmt.Sprintf("frame payload is not the reply (err=%v xid=%x op=%d yiaddr=%v)", err, rep.Xid, rep.Op, net.IP(rep.YI[:])))
		}
		return
	}
	if len(out.Sent) != 1 {
		bad("unexpected-link-level", "reply sent as a link-level frame where the cascade asks for a UDP datagram")
		return
	}
	s := out.Sent[0]
	ua, ok := s.Peer.(*net.UDPAddr)
	if !ok || !ua.IP.Equal(wantIP) {
		bad("destination", fmt.Sprintf("reply sent to %v, want %v", s.Peer, wantIP))
	}
	if ok && ua.Port != wantPort {
		bad("port", fmt.Sprintf("reply sent to port %d, want %d", ua.Port, wantPort))
	}
	if pinned {
		if !s.HasCM || s.IfIndex != wantIf {
			bad("not-pinned", fmt.Sprintf("broadcast/link-local reply pinned to ifindex %d (control message %v), want %d", s.IfIndex, s.HasCM, wantIf))
		}
	} else if s.HasCM && s.IfIndex != 0 {
		bad("pinned-routable", fmt.Sprintf("reply to a routable address is pinned to ifindex %d", s.IfIndex))
	}
}

func run(r *ev.Run) {
	addrs := []string{"0.0.0.0", "10.1.2.3", "169.254.7.7", "255.255.255.255"}
	yis := []string{"0.0.0.0", "10.0.0.50", "169.254.9.9"}
	var idx []int
	for _, i := range srv.Ifaces() {
		idx = append(idx, i.Index)
	}
	if r.Quick() && len(idx) > 2 {
		idx = idx[:2]
	}
	r.Rule(fmt.Sprintf("E3 complete decision table through the real HandleMsg4: giaddr x ciaddr in {0,routable,link-local,broadcast} x broadcast flag x reply{OFFER,ACK,NAK by plugin} x yiaddr{0,routable,link-local} x listener{unbound, bound to each of %d interfaces} x receiving interface index; reference = the RFC 2131 4.1 cascade as worded in the property. UDP replies observed at WriteTo, link-level replies as the serialised Ethernet frame. Class = cascade rule/pinned/bound/#sent/#frames.", len(idx)))
	r.Assume(fmt.Sprintf("host interfaces %v; 'unbound listener without control message' only for unpinned destinations (no defined answer otherwise, covered by C01); AF_PACKET syscalls after the frame is built are not executed", idx))
	for _, gi := range addrs {
		for _, ci := range addrs {
			for _, bc := range []bool{false, true} {
				for _, rep := range []string{"OFFER", "ACK", "NAK"} {
					for _, yi := range yis {
						for _, bound := range append([]int{0}, idx...) {
							for _, oob := range append([]int{0}, idx...) {
								if bound != 0 && oob != 0 && oob != bound {
									continue // a bound socket only receives on its interface
								}
								c := Case{gi, ci, yi, bc, rep, bound, oob, 6}
								if bound == 0 && oob == 0 {
									// only where the answer is defined: routable destination
									z := func(s string) bool { return s == "0.0.0.0" }
									routable := (!z(gi) && gi == "10.1.2.3") || (z(gi) && rep != "NAK" && ci == "10.1.2.3")
									if !routable {
										continue
									}
								}
								eval(r, c)
							}
						}
					}
				}
			}
		}
	}
}

func replay(r *ev.Run, raw json.RawMessage) {
	var c Case
	if err := json.Unmarshal(raw, &c); err != nil {
		r.Violate("C15/replay/bad-file", err.Error(), nil)
		return
	}
	eval(r, c)
	_ = hex.EncodeToString
}
