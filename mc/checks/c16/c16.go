// Package c16: concurrent datagram handling is race-free and equivalent to a serial order.
// E2 (all schedules up to a preemption bound, statement granularity, through the real Serve
// loop) decides serialisability and the lease invariants; E4 (free-running -race pass over
// the same scenario bodies) detects unsynchronised accesses.
package c16

import (
	"bytes"
	"encoding/json"
	"fmt"
	"os"
	"os/exec"
	"regexp"
	"strconv"
	"strings"
	"sync"
	"time"

	"verifmc/checks/alloc"
	"verifmc/conc"
	"verifmc/ev"
	"verifmc/reg"
	"verifmc/sched"
	"verifmc/verifsched"
)

func init() {
	reg.Register(&reg.Check{ID: "C16", Level: "model_checking", Run: run, Replay: replay, Worker: worker})
}

func budget(thorough bool) time.Duration {
	if thorough {
		return 12 * time.Minute
	}
	return 100 * time.Second
}

// RunSpecs explores the given scenarios in parallel worker processes under check id.
func RunSpecs(r *ev.Run, id string, filter func(conc.Spec) bool) {
	if os.Getenv("VERIF_SCHED") != "1" {
		r.Capped("scheduler-based scenarios skipped: binary not built with the instrumentation overlay")
		return
	}
	if b, _ := os.ReadFile(os.Getenv("VERIF_UNMODELLED")); len(strings.TrimSpace(string(b))) > 0 {
		// honesty about nondeterminism the scheduler does not own
		r.Capped("the instrumented code uses runtime timers, which the scheduler does not control: interleavings that depend on a timer firing are NOT explored (" + strings.ReplaceAll(strings.TrimSpace(string(b)), "\n", "; ") + ")")
	}
	var wg sync.WaitGroup
	sem := make(chan struct{}, 16)
	for _, sp := range conc.Specs(!r.Quick()) {
		if filter != nil && !filter(sp) {
			continue
		}
		sp := sp
		wg.Add(1)
		sem <- struct{}{}
		go func() {
			defer wg.Done()
			defer func() { <-sem }()
			res := reg.Spawn(r, "C16", budget(!r.Quick())+5*time.Minute, "sched", id, sp.Name)
			if res.Died || res.Hung {
				panic(fmt.Sprintf("E2 worker for %s failed (checker error, not a verdict): %s", sp.Name, res.Output))
			}
		}()
	}
	wg.Wait()
}

func run(r *ev.Run) {
	r.Rule("E2: for every scenario (k datagrams pushed through the real Serve loop of a socket-less listener around the chains [server_id,file,range,dns] / [server_id,file,prefix,dns]; buffers recycled LIFO by the shim pool; optional concurrent reload of the static lease file) ALL schedules with at most 2 (thorough 3) preemptions - one less for scenarios with a third/fourth thread - at statement granularity are executed; oracle = outcome (replies per transaction id + final lease state) equals that of some sequential order computed with the implementation itself, plus per-reply oracles (reply belongs to its request, server id, lifetimes), lease-table/bitmap consistency, no deadlock, no lock left held. E4: the same scenarios free-running under the Go race detector. Class = scenario / distinct outcome.")
	r.Assume("at most 3 concurrent datagrams; third-party code (logrus, database/sql, sqlite, the DHCP codec) executes atomically between scheduling points; the race detector only sees the executions that actually ran")
	r.Rule("Wide scenarios: n = 1200 (thorough 6000) DISCOVERs / SOLICITs of n different clients, pool with room for all, handled (a) one at a time and (b) all in flight at once (round-robin schedule, one statement each in turn, under the cooperative scheduler): the number of replies, of answered transactions and of distinct addresses/prefixes must be equal, and the per-reply and state oracles hold.")
	RunSpecs(r, "C16", nil)
	RunWide(r, "C16")
	refreshDeadlock(r, "C16")
	racePass(r)
}

// refreshDeadlock is wired in cmd/mc (the static-lease check owns the real-watcher runs).
var refreshDeadlock = func(r *ev.Run, id string) {}

// SetRefreshDeadlock installs it.
func SetRefreshDeadlock(f func(*ev.Run, string)) { refreshDeadlock = f }

// WideSizes are the numbers of simultaneously in-flight datagrams of the wide scenarios.
func WideSizes(thorough bool) []int {
	if thorough {
		return []int{1200, 6000}
	}
	return []int{1200}
}

// RunWide runs the wide scenarios in worker processes under check id.
func RunWide(r *ev.Run, id string) {
	if os.Getenv("VERIF_SCHED") != "1" {
		r.Capped("wide scenarios skipped: binary not built with the instrumentation overlay")
		return
	}
	var wg sync.WaitGroup
	for _, proto := range []int{4, 6} {
		for _, n := range WideSizes(!r.Quick()) {
			proto, n := proto, n
			wg.Add(1)
			go func() {
				defer wg.Done()
				res := reg.Spawn(r, "C16", 20*time.Minute, "wide", id, fmt.Sprint(proto), fmt.Sprint(n))
				if res.Died || res.Hung {
					panic(fmt.Sprintf("wide worker v%d/%d failed (checker error, not a verdict): %s", proto, n, res.Output))
				}
			}()
		}
	}
	wg.Wait()
}

func wideOne(r *ev.Run, id string, proto, n int) {
	sp := conc.WideSpec(proto, n)
	defer reg.OpBegin(fmt.Sprintf("wide scenario %s", sp.Name))()
	serial, wide, viols, steps, eng := sp.Wide()
	if eng != "" {
		panic("E2 engine error in " + sp.Name + ": " + eng)
	}
	if steps < 20*n {
		panic("E2 engine error in " + sp.Name + ": too few scheduling points (instrumentation missing?)")
	}
	c := map[string]interface{}{"wide": map[string]int{"proto": proto, "n": n}}
	r.EvalN("wide/"+sp.Name, 1)
	r.Add("schedule_points", int64(steps))
	r.Add("schedules", 1)
	r.Eval("outcome/" + sp.Name + "/" + wide)
	r.Sample("wide/"+sp.Name, map[string]interface{}{"scenario": sp.Name, "one_at_a_time": serial, "all_in_flight": wide, "thread_resumptions": steps})
	for _, v := range viols {
		r.Violate(id+"/wide/"+sp.Name+"/"+v.Sig, fmt.Sprintf("%d datagrams in flight at once: %s", n, v.What), c)
	}
	if serial != wide {
		r.Violate(id+"/wide/"+sp.Name+"/not-serialisable", fmt.Sprintf("handled one at a time: %s; all %d in flight at once: %s", serial, n, wide), c)
	}
}

func worker(args []string) int {
	r := ev.New("C16", reg.Tier, "model_checking")
	switch args[0] {
	case "wide":
		proto, _ := strconv.Atoi(args[2])
		n, _ := strconv.Atoi(args[3])
		wideOne(r, args[1], proto, n)
	case "sched":
		id, name := args[1], args[2]
		for _, sp := range conc.Specs(true) {
			if sp.Name == name {
				bound := 2
				if reg.Tier == "thorough" {
					bound = 3
				}
				if sp.Reload || len(sp.Dgrams) > 2 {
					bound-- // one more thread: the bound that completes within the budget is one lower
				}
				res := sched.Explore(sp.Scenario(), bound, budget(reg.Tier == "thorough"))
				alloc.ReportSched(r, id, res, map[string]interface{}{"datagrams": len(sp.Dgrams), "reload_thread": sp.Reload, "prefill": sp.Prefill, "blocks": sp.Blocks})
				if reg.Tier == "thorough" && len(res.Found) == 0 {
					// second pass: ALL interleavings (no preemption bound) at the granularity of
					// synchronisation operations (lock acquisitions, goroutine start/end)
					verifsched.YieldOff.Store(true)
					sc := sp.Scenario()
					sc.Name = sp.Name + "/sync-level-unbounded"
					res2 := sched.Explore(sc, 1<<20, 10*time.Minute)
					verifsched.YieldOff.Store(false)
					res2.BoundAsked = res2.BoundCompleted // "unbounded": whatever completed is the claim
					alloc.ReportSched(r, id, res2, map[string]interface{}{"granularity": "synchronisation operations only", "preemption_bound": "none"})
				}
			}
		}
	case "determinism":
		for _, sp := range conc.Specs(true) {
			if len(args) > 1 && sp.Name != args[1] {
				continue
			}
			sc := sp.Scenario()
			var ref string
			for i := 0; i < 20; i++ {
				run, ex := sched.RunOnce(sc, nil)
				sig := fmt.Sprintf("%d points; %v | %s", len(run.Points), run.Points, ex.Outcome)
				if i == 0 {
					ref = sig
				} else if sig != ref {
					fmt.Printf("NONDETERMINISTIC %s run %d:\n  %s\n  %s\n", sp.Name, i, ref, sig)
					break
				}
			}
			fmt.Println("determinism checked:", sp.Name)
		}
	case "race":
		rounds := 200
		if reg.Tier == "thorough" {
			rounds = 2000
		}
		for _, sp := range conc.Specs(true) {
			incomplete := 0
			expect := -1
			for i := 0; i < rounds && incomplete < 3; i++ {
				d, ok := sp.FreeRun(expect)
				if d == "HUNG" {
					fmt.Printf("\n@@FREERUN-HUNG %s\n", sp.Name)
					return reg.WorkerExit(r)
				}
				if !ok {
					incomplete++
				}
			}
			r.EvalN("race-rounds/"+sp.Name, int64(rounds))
			if incomplete > 0 {
				r.Set("race_incomplete_rounds_"+sp.Name, int64(incomplete))
			}
		}
		dualStackWatchers(r)
	}
	return reg.WorkerExit(r)
}

var raceBlock = regexp.MustCompile(`(?s)WARNING: DATA RACE.*?==================`)
var repoFrame = regexp.MustCompile(`github\.com/coredhcp/coredhcp/([A-Za-z0-9_/.()*]+)\(\)`)

// racePass runs the -race binary free on all Ps and classifies its reports.
func racePass(r *ev.Run) {
	bin := os.Getenv("VERIF_RACE_BIN")
	if bin == "" {
		r.Capped("race pass skipped: no -race binary")
		return
	}
	cmd := exec.Command(bin, "-check", "C16", "-tier", r.Tier, "-worker", "race")
	cmd.Env = append(os.Environ(), "GORACE=halt_on_error=0 history_size=3")
	var buf bytes.Buffer
	cmd.Stdout, cmd.Stderr = &buf, &buf
	done := make(chan error, 1)
	cmd.Start()
	go func() { done <- cmd.Wait() }()
	select {
	case <-done:
	case <-time.After(40 * time.Minute):
		cmd.Process.Kill()
		<-done
		r.Capped("race pass: time budget hit")
	}
	out := buf.String()
	const marker = "\n@@VERIF-WORKER-EXPORT@@\n"
	if i := strings.LastIndex(out, marker); i >= 0 {
		r.Import([]byte(out[i+len(marker):]))
		out = out[:i]
	} else if repoFrame.MatchString(out) && (strings.Contains(out, "fatal error:") || strings.Contains(out, "panic:")) {
		// the free-running server code crashed (e.g. "concurrent map writes"): that is a
		// concurrency failure of coredhcp itself, not of the checker
		what := "crash"
		if i := strings.Index(out, "fatal error:"); i >= 0 {
			what = strings.SplitN(out[i:], "\n", 2)[0]
		} else if i := strings.Index(out, "panic:"); i >= 0 {
			what = strings.SplitN(out[i:], "\n", 2)[0]
		}
		fr := repoFrame.FindStringSubmatch(out)
		r.Violate("C16/free-running-crash/"+fr[1], "concurrent datagrams crashed the free-running server code: "+what, map[string]interface{}{"output_tail": tail(out)})
	} else {
		panic("race worker died (checker error): " + tail(out))
	}
	if i := strings.Index(out, "@@FREERUN-HUNG "); i >= 0 {
		name := strings.TrimSpace(strings.SplitN(out[i+len("@@FREERUN-HUNG "):], "\n", 2)[0])
		r.Violate("C16/free-running-hang/"+name, "free-running goroutines of scenario "+name+" did not finish within 30 s: the Serve loop, a handler or the lease-file reload is blocked forever (deadlock)", map[string]interface{}{"scenario": name})
	}
	blocks := raceBlock.FindAllString(out, -1)
	r.Set("race_reports", int64(len(blocks)))
	for _, b := range blocks {
		fr := repoFrame.FindAllStringSubmatch(b, -1)
		if len(fr) == 0 {
			continue // not in coredhcp code
		}
		seen := map[string]bool{}
		var fns []string
		for _, f := range fr {
			if !seen[f[1]] && !strings.Contains(f[1], "Verif") && !strings.Contains(f[1], "verif") {
				seen[f[1]] = true
				fns = append(fns, f[1])
			}
		}
		if len(fns) > 3 {
			fns = fns[:3]
		}
		if len(b) > 3000 {
			b = b[:3000]
		}
		r.Violate("C16/data-race/"+strings.Join(fns, "+"), "the Go race detector reports an unsynchronised access in coredhcp code: "+strings.Join(fns, ", "), map[string]interface{}{"race_report": b})
	}
}

func tail(s string) string {
	if len(s) > 1500 {
		return s[len(s)-1500:]
	}
	return s
}

func replay(r *ev.Run, raw json.RawMessage) {
	var sc struct {
		Scenario string `json:"scenario"`
		Schedule []int  `json:"schedule"`
	}
	var w struct {
		Wide *struct{ Proto, N int } `json:"wide"`
	}
	if json.Unmarshal(raw, &w) == nil && w.Wide != nil {
		wideOne(r, "C16", w.Wide.Proto, w.Wide.N)
		return
	}
	if json.Unmarshal(raw, &sc) != nil || sc.Scenario == "" {
		r.Violate("C16/replay/bad-file", "not a schedule replay (race reports are not replayable)", nil)
		return
	}
	ReplaySchedule(r, "C16", sc.Scenario, sc.Schedule)
}

// ReplaySchedule re-executes one recorded schedule of a conc scenario three times.
func ReplaySchedule(r *ev.Run, id, name string, choices []int) {
	for _, sp := range conc.Specs(true) {
		if sp.Name != name {
			continue
		}
		first := ""
		for i := 0; i < 3; i++ {
			ex, viols, eng := sched.ReplayOne(sp.Scenario(), choices)
			if eng != "" {
				panic(eng)
			}
			if i == 0 {
				first = ex.Outcome
				fmt.Printf("  scenario %s schedule %v\n  outcome: %s\n", name, choices, ex.Outcome)
				for _, v := range viols {
					r.Violate(id+"/sched/"+name+"/"+v.Sig, v.What, map[string]interface{}{"scenario": name, "schedule": choices})
				}
			} else if ex.Outcome != first {
				panic("replay is not deterministic: " + ex.Outcome + " vs " + first)
			}
		}
		return
	}
	r.Violate(id+"/replay/unknown-scenario", name, nil)
}
