package c16

import (
	"fmt"
	"os"
	"path/filepath"
	"time"

	"github.com/coredhcp/coredhcp/plugins/file"

	"verifmc/ev"
	"verifmc/srv"
)

// dualStackWatchers (E4 only): both file instances with their REAL autorefresh watcher
// goroutines while both files are rewritten and both handlers are queried.
func dualStackWatchers(r *ev.Run) {
	f4 := filepath.Join(srv.Scratch(), "race-dual4.txt")
	f6 := filepath.Join(srv.Scratch(), "race-dual6.txt")
	os.WriteFile(f4, []byte("02:00:00:00:5a:01 10.9.0.1\n"), 0o644)
	os.WriteFile(f6, []byte("02:00:00:00:5a:01 2001:db8:9::1\n"), 0o644)
	if _, err := file.Plugin.Setup6(f6, "autorefresh"); err != nil {
		r.Set("race_dual_stack", "setup failed: "+err.Error())
		return
	}
	if _, err := file.Plugin.Setup4(f4, "autorefresh"); err != nil {
		r.Set("race_dual_stack", "setup failed: "+err.Error())
		return
	}
	for i := 0; i < 40; i++ {
		os.WriteFile(f4, []byte(fmt.Sprintf("02:00:00:00:5a:01 10.9.0.%d\n", i%200+1)), 0o644)
		os.WriteFile(f6, []byte(fmt.Sprintf("02:00:00:00:5a:01 2001:db8:9::%x\n", i+1)), 0o644)
		file.VerifTable()
		time.Sleep(3 * time.Millisecond)
	}
	time.Sleep(50 * time.Millisecond)
	r.EvalN("race-rounds/S6-dual-stack-real-watchers", 40)
}
