package c16

import (
	"strings"

	"verifmc/conc"
	"verifmc/ev"
)

// SchedPart runs the scheduler-based scenarios relevant to another property (C02: DHCPv4
// lease scenarios, C08: prefix delegation scenarios) and reports them under that id.
func SchedPart(id string, proto int) func(*ev.Run) {
	return func(r *ev.Run) {
		RunSpecs(r, id, func(sp conc.Spec) bool {
			return sp.Proto == proto && !strings.Contains(sp.Name, "S4") && !strings.Contains(sp.Name, "S5")
		})
	}
}
