package c16

import (
	"strings"

	"verifmc/conc"
	"verifmc/ev"
)

// SchedBuffers runs the receive-buffer scenarios (S5*) and the dropped-at-send scenarios (S6*) under another property id (C11).
func SchedBuffers(id string) func(*ev.Run) {
	return func(r *ev.Run) {
		RunSpecs(r, id, func(sp conc.Spec) bool { return sp.Proto == 4 && (strings.Contains(sp.Name, "S5") || strings.Contains(sp.Name, "S6")) })
	}
}
