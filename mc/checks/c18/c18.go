// Package c18: config loading yields exact plugin lists and listen addresses; errors, not panics.
// Engine E3: all documents of a configuration grammar + 1-deviation closure of seed documents.
package c18

import (
	"encoding/json"
	"fmt"
	"net"
	"os"
	"path/filepath"
	"strings"
	"sync"
	"sync/atomic"

	"github.com/coredhcp/coredhcp/config"

	"verifmc/ev"
	"verifmc/reg"
	"verifmc/srv"
)

func init() {
	reg.Register(&reg.Check{ID: "C18", Level: "exploration", Run: run, Replay: replay})
}

type Case struct {
	Doc    string `json:"yaml"`
	Class  string `json:"class,omitempty"`
	Expect *doc   `json:"expect,omitempty"`            // what the statement says about this document
	File   string `json:"file_name_pattern,omitempty"` // name the document was stored under (%d = sequence number)
}

// addrSpec: one spelling of a listen address and what the statement says about it.
type addrSpec struct {
	text   string
	ver    int    // family the spelling is valid for (4/6); 0 = valid for none
	ip     string // "" = wildcard
	zone   string
	port   int  // 0 = default
	reject bool // statement: must be rejected (for its own family too)
	skip   bool // statement silent: enumerate, assert nothing
	mcast  bool // link-local multicast without zone: expanded per interface
	any    bool // wildcard forms valid for both families
	zero   bool // port 0 written explicitly: must stay 0, not become the default
}

var addrs = []addrSpec{
	{text: "0.0.0.0", ver: 4, ip: "0.0.0.0"},
	{text: "192.0.2.1", ver: 4, ip: "192.0.2.1"},
	{text: "':67'", any: true, port: 67},
	{text: "':6767'", any: true, port: 6767},
	{text: "192.0.2.1:6767", ver: 4, ip: "192.0.2.1", port: 6767},
	{text: "192.0.2.1:0", ver: 4, ip: "192.0.2.1", zero: true},
	{text: "':0'", any: true, zero: true},
	{text: "'%lo:0'", any: true, zone: "lo", zero: true},
	{text: "'[2001:db8::1]:0'", ver: 6, ip: "2001:db8::1", zero: true},
	{text: "'%lo'", any: true, zone: "lo"},
	{text: "'%lo:6767'", any: true, zone: "lo", port: 6767},
	{text: "'192.0.2.1%lo:6767'", ver: 4, ip: "192.0.2.1", zone: "lo", port: 6767},
	{text: "224.0.0.1", ver: 4, ip: "224.0.0.1", mcast: true},
	{text: "'224.0.0.1%lo'", ver: 4, ip: "224.0.0.1", zone: "lo"},
	{text: "239.1.1.1", ver: 4, ip: "239.1.1.1"},
	{text: "'[::]'", ver: 6, ip: "::"},
	{text: "'[::]:5547'", ver: 6, ip: "::", port: 5547},
	{text: "'[2001:db8::1]:547'", ver: 6, ip: "2001:db8::1", port: 547},
	{text: "'[fe80::1%lo]:547'", ver: 6, ip: "fe80::1", zone: "lo", port: 547},
	{text: "'[fe80::1%lo]'", ver: 6, ip: "fe80::1", zone: "lo"},
	{text: "'[ff02::1:2]'", ver: 6, ip: "ff02::1:2", mcast: true},
	{text: "'[ff02::1:2]:5547'", ver: 6, ip: "ff02::1:2", port: 5547, mcast: true},
	{text: "'[ff02::1:2%lo]'", ver: 6, ip: "ff02::1:2", zone: "lo"},
	{text: "'[ff05::1:3]'", ver: 6, ip: "ff05::1:3"},
	{text: "'[ff01::1]'", ver: 6, ip: "ff01::1", mcast: true},
	// ports are decimal numbers: leading zeros do not make them octal ...
	{text: "192.0.2.1:067", ver: 4, ip: "192.0.2.1", port: 67},
	{text: "':0547'", any: true, port: 547},
	{text: "'%lo:068'", any: true, zone: "lo", port: 68},
	{text: "'[2001:db8::1]:00547'", ver: 6, ip: "2001:db8::1", port: 547},
	// ... and the prefixed / grouped number spellings of Go source are not ports
	{text: "192.0.2.1:0x43", reject: true},
	{text: "':0b1000011'", reject: true},
	{text: "':0o103'", reject: true},
	{text: "':6_7'", reject: true},
	{text: "'[::]:0x223'", reject: true},
	// garbage: rejected under either protocol
	{text: "foo", reject: true},
	{text: "1.2.3.4:http", reject: true},
	{text: "256.1.1.1", reject: true},
	{text: "'[::1'", reject: true},
	{text: "'[::1]:dhcp'", reject: true},
	{text: "1.2.3.4.5", reject: true},
	// statement silent
	{text: "'::1'", skip: true},
	{text: "'[::ffff:192.0.2.1]'", skip: true},
	{text: "'::ffff:192.0.2.1'", skip: true},
	{text: "1.2.3.4:", skip: true},
	{text: "1.2.3.4:99999", skip: true},
	{text: "1.2.3.4:-1", skip: true},
	{text: "''", skip: true},
	{text: "'a b'", skip: true},
}

type pluginItem struct {
	yaml   string // text after "- "
	name   string
	args   []string
	reject bool
	skip   bool
}

func (p pluginItem) MarshalJSON() ([]byte, error) {
	return json.Marshal(map[string]interface{}{"name": p.name, "args": p.args})
}

func (p *pluginItem) UnmarshalJSON(b []byte) error {
	var m struct {
		Name string   `json:"name"`
		Args []string `json:"args"`
	}
	if err := json.Unmarshal(b, &m); err != nil {
		return err
	}
	p.name, p.args = m.Name, m.Args
	return nil
}

var items = []pluginItem{
	{yaml: "dns: 8.8.8.8 1.1.1.1", name: "dns", args: []string{"8.8.8.8", "1.1.1.1"}},
	{yaml: "mtu: 1500", name: "mtu", args: []string{"1500"}},
	{yaml: "sleep:", name: "sleep", args: nil},
	{yaml: "router:   10.0.0.1 \t 10.0.0.2  ", name: "router", args: []string{"10.0.0.1", "10.0.0.2"}},
	{yaml: "file: \"leases.txt autorefresh\"", name: "file", args: []string{"leases.txt", "autorefresh"}},
	{yaml: "server_id: LL 00:de:ad:be:ef:00", name: "server_id", args: []string{"LL", "00:de:ad:be:ef:00"}},
	{yaml: "range: leases.sqlite 10.0.0.1 10.0.0.9 60s", name: "range", args: []string{"leases.sqlite", "10.0.0.1", "10.0.0.9", "60s"}},
	{yaml: "lease_time: 3600s", name: "lease_time", args: []string{"3600s"}},
	// characters that mean something to shells or other configuration languages mean nothing
	// here: arguments are the whitespace-separated fields of the decoded value
	{yaml: `nbp: '"a b" c'`, name: "nbp", args: []string{`"a`, `b"`, "c"}},
	{yaml: `searchdomains: "'x y' z"`, name: "searchdomains", args: []string{"'x", "y'", "z"}},
	{yaml: `netmask: 'a "" b'`, name: "netmask", args: []string{"a", `""`, "b"}},
	{yaml: `ipv6only: '"quoted"'`, name: "ipv6only", args: []string{`"quoted"`}},
	{yaml: `autoconfigure: 'a\ b x=1 #y a,b;c'`, name: "autoconfigure", args: []string{`a\`, "b", "x=1", "#y", "a,b;c"}},
	{yaml: `staticroute: "p\tq\nr"`, name: "staticroute", args: []string{"p", "q", "r"}},
	// single unquoted tokens that YAML types as numbers or booleans: the argument is the token
	{yaml: "mtu: 0.00005", name: "mtu", args: []string{"0.00005"}},
	{yaml: "lease_time: 1234567.5", name: "lease_time", args: []string{"1234567.5"}},
	{yaml: "netmask: 0.5", name: "netmask", args: []string{"0.5"}},
	{yaml: "router: 4294967296", name: "router", args: []string{"4294967296"}},
	{yaml: "dns: true", name: "dns", args: []string{"true"}},
	{yaml: "a: 1\n      b: 2", reject: true},
	{yaml: "{a: 1, b: 2}", reject: true},
	{yaml: "dns", skip: true},
	{yaml: "", skip: true},
	{yaml: "[dns, 8.8.8.8]", skip: true},
	{yaml: "netmask: 0xff", skip: true},
	{yaml: "x: [1, 2]", skip: true},
}

type doc struct {
	text    string
	expect  map[int]*section // per protocol; nil entry = section must be absent
	reject  bool
	skipAll bool
	skipLis map[int]bool
}

type section struct {
	plugins []pluginItem
	listen  []net.UDPAddr
}

type docJSON struct {
	Reject  bool                    `json:"must_be_rejected"`
	SkipAll bool                    `json:"not_asserted"`
	SkipLis map[string]bool         `json:"listen_not_asserted,omitempty"`
	Expect  map[string]*sectionJSON `json:"sections,omitempty"`
}

type sectionJSON struct {
	Plugins []pluginItem  `json:"plugins"`
	Listen  []net.UDPAddr `json:"listen"`
}

func (d doc) MarshalJSON() ([]byte, error) {
	j := docJSON{Reject: d.reject, SkipAll: d.skipAll, SkipLis: map[string]bool{}, Expect: map[string]*sectionJSON{}}
	for k, v := range d.skipLis {
		j.SkipLis[fmt.Sprint(k)] = v
	}
	for k, v := range d.expect {
		if v != nil {
			j.Expect[fmt.Sprint(k)] = &sectionJSON{v.plugins, v.listen}
		}
	}
	return json.Marshal(j)
}

func (d *doc) UnmarshalJSON(b []byte) error {
	var j docJSON
	if err := json.Unmarshal(b, &j); err != nil {
		return err
	}
	d.reject, d.skipAll, d.skipLis, d.expect = j.Reject, j.SkipAll, map[int]bool{}, map[int]*section{}
	for k, v := range j.SkipLis {
		var n int
		fmt.Sscan(k, &n)
		d.skipLis[n] = v
	}
	for k, v := range j.Expect {
		var n int
		fmt.Sscan(k, &n)
		d.expect[n] = &section{v.Plugins, v.Listen}
	}
	return nil
}

var ifaces = srv.Ifaces()

func expand(a addrSpec, ver int) []net.UDPAddr {
	port := a.port
	if port == 0 && !a.zero {
		port = map[int]int{4: 67, 6: 547}[ver]
	}
	ip := net.ParseIP(a.ip)
	if !a.mcast {
		return []net.UDPAddr{{IP: ip, Port: port, Zone: a.zone}}
	}
	need := net.FlagMulticast
	if ver == 4 {
		need |= net.FlagBroadcast
	}
	var out []net.UDPAddr
	for _, i := range ifaces {
		if i.Flags&need == need {
			out = append(out, net.UDPAddr{IP: ip, Port: port, Zone: i.Name})
		}
	}
	return out
}

func sameAddr(got net.UDPAddr, want net.UDPAddr) bool {
	if got.Port != want.Port || got.Zone != want.Zone {
		return false
	}
	if want.IP == nil {
		return got.IP == nil || got.IP.IsUnspecified()
	}
	return got.IP.Equal(want.IP)
}

var tmpSeq atomic.Int64

// nameTmpl is the file name documents are stored under: what a configuration file is called
// is not among the reasons the statement gives for rejecting it.
var nameTmpl = "c18-%d.yml"

func load(text string) (c *config.Config, err error, pan string) {
	f := filepath.Join(srv.Scratch(), fmt.Sprintf(nameTmpl, tmpSeq.Add(1)))
	os.WriteFile(f, []byte(text), 0o644)
	defer os.Remove(f)
	defer func() {
		if e := recover(); e != nil {
			pan = fmt.Sprint(e)
		}
	}()
	c, err = config.Load(f)
	return
}

func eval(r *ev.Run, d doc, class string) {
	c, err, pan := load(d.text)
	dd := d
	cs := Case{d.text, class, &dd, nameTmpl}
	if pan != "" {
		r.Violate("C18/panic", "config.Load panicked: "+pan, cs)
		r.Eval(class + "/panic")
		return
	}
	defer func() { r.Eval(class); r.Sample(class, cs) }()
	if d.skipAll {
		class += "/not-asserted"
		return
	}
	if d.reject {
		if err == nil {
			r.Violate("C18/accepted/"+class, "configuration that the statement says must be rejected was accepted", cs)
		}
		class += "/rejected"
		return
	}
	if err != nil {
		r.Violate("C18/rejected/"+class, "valid configuration rejected: "+err.Error(), cs)
		return
	}
	for _, ver := range []int{4, 6} {
		got := c.Server4
		if ver == 6 {
			got = c.Server6
		}
		want := d.expect[ver]
		if want == nil {
			if got != nil {
				r.Violate("C18/phantom-section", fmt.Sprintf("server%d configured although absent from the file", ver), cs)
			}
			continue
		}
		if got == nil {
			r.Violate("C18/missing-section", fmt.Sprintf("server%d missing from the loaded configuration", ver), cs)
			continue
		}
		ok := len(got.Plugins) == len(want.plugins)
		for i := 0; ok && i < len(want.plugins); i++ {
			ok = got.Plugins[i].Name == want.plugins[i].name && fmt.Sprintf("%q", got.Plugins[i].Args) == fmt.Sprintf("%q", append([]string{}, want.plugins[i].args...))
		}
		if !ok {
			r.Violate("C18/plugin-list", fmt.Sprintf("server%d plugins loaded as %+v, file lists %+v", ver, got.Plugins, want.plugins), cs)
		}
		if d.skipLis[ver] {
			continue
		}
		ok = len(got.Addresses) == len(want.listen)
		for i := 0; ok && i < len(want.listen); i++ {
			ok = sameAddr(got.Addresses[i], want.listen[i])
		}
		if !ok {
			r.Violate("C18/listen", fmt.Sprintf("server%d listen addresses loaded as %v, want %v", ver, got.Addresses, want.listen), cs)
		}
	}
	class += "/accepted"
}

func pluginsYAML(its []pluginItem) string {
	var sb strings.Builder
	sb.WriteString("  plugins:\n")
	for _, it := range its {
		sb.WriteString("    - " + it.yaml + "\n")
	}
	return sb.String()
}

func run(r *ev.Run) {
	r.Rule("E3: every document of the grammar {server4, server6, both} x listen {absent, scalar, list of 1-2} over 44 address spellings (incl. ports with leading zeros = decimal, and 0x/0b/0o/underscore numbers = unparseable) x interface {absent, present} x plugins section {missing, empty list, scalar, list of 1-3 items over 15 item shapes} loaded through the real config.Load and compared with the statement (plugin names/args in file order; ip/zone/port; wildcard+default port; multicast expansion per host interface; the six rejection clauses); no-panic on everything incl. the 1-deviation closure (replace/insert/delete of YAML-significant characters at every position) of seed documents. Class = document shape/outcome.")
	r.Assume(fmt.Sprintf("multicast expansion checked for this host's interfaces only (%d); out-of-range ports, bare IPv6, v4-mapped addresses, scalar listen with whitespace, bare-string items and default listeners (listen absent) are enumerated but not asserted", len(ifaces)))
	one := []pluginItem{items[0]}
	// (1) address spellings, scalar and list form, each protocol
	for _, ver := range []int{4, 6} {
		for _, a := range addrs {
			for _, form := range []string{"scalar", "list"} {
				d := doc{expect: map[int]*section{}, skipLis: map[int]bool{}}
				lis := "  listen: " + a.text + "\n"
				if form == "list" {
					lis = "  listen:\n    - " + a.text + "\n"
				}
				d.text = fmt.Sprintf("server%d:\n%s%s", ver, lis, pluginsYAML(one))
				switch {
				case a.skip:
					d.skipAll = true
				case a.reject || (a.ver != ver && !a.any):
					d.reject = true
				default:
					d.expect[ver] = &section{plugins: one, listen: expand(a, ver)}
				}
				eval(r, d, fmt.Sprintf("listen-%s/v%d/%s", form, ver, addrKind(a, ver)))
			}
		}
		// lists of two addresses (order preserved, multicast expansion in place)
		var good []addrSpec
		for _, a := range addrs {
			if (a.ver == ver || a.any) && !a.skip && !a.reject {
				good = append(good, a)
			}
		}
		for _, a := range good {
			for _, b := range good {
				d := doc{expect: map[int]*section{}, skipLis: map[int]bool{}}
				d.text = fmt.Sprintf("server%d:\n  listen:\n    - %s\n    - %s\n%s", ver, a.text, b.text, pluginsYAML(one))
				d.expect[ver] = &section{plugins: one, listen: append(expand(a, ver), expand(b, ver)...)}
				eval(r, d, fmt.Sprintf("listen-list2/v%d", ver))
			}
			// a good address followed by a bad one rejects the file
			d := doc{reject: true}
			d.text = fmt.Sprintf("server%d:\n  listen:\n    - %s\n    - foo\n%s", ver, a.text, pluginsYAML(one))
			eval(r, d, fmt.Sprintf("listen-list2-bad/v%d", ver))
		}
		// interface keyword
		d := doc{expect: map[int]*section{ver: {plugins: one, listen: []net.UDPAddr{{Zone: "lo", Port: map[int]int{4: 67, 6: 547}[ver]}}}}, skipLis: map[int]bool{}}
		d.text = fmt.Sprintf("server%d:\n  interface: lo\n%s", ver, pluginsYAML(one))
		eval(r, d, fmt.Sprintf("interface-only/v%d", ver))
		for _, a := range good {
			d := doc{reject: true}
			d.text = fmt.Sprintf("server%d:\n  interface: lo\n  listen: %s\n%s", ver, a.text, pluginsYAML(one))
			eval(r, d, fmt.Sprintf("interface+listen/v%d", ver))
		}
		// plugins section shapes
		lis := map[int]string{4: "  listen: '0.0.0.0:6767'\n", 6: "  listen: '[::]:5547'\n"}[ver]
		lisAddr := map[int][]net.UDPAddr{4: {{IP: net.IPv4zero, Port: 6767}}, 6: {{IP: net.IPv6unspecified, Port: 5547}}}[ver]
		for name, body := range map[string]string{"missing": "", "empty-list": "  plugins: []\n", "empty-block": "  plugins:\n", "scalar": "  plugins: dns\n", "number": "  plugins: 5\n", "map": "  plugins:\n    dns: 8.8.8.8\n"} {
			d := doc{reject: true}
			d.text = fmt.Sprintf("server%d:\n%s%s", ver, lis, body)
			eval(r, d, fmt.Sprintf("plugins-%s/v%d", name, ver))
		}
		// item lists of length 1..3 (thorough) / 1..2 (quick)
		maxItems := 2
		if !r.Quick() {
			maxItems = 3
		}
		var rec func(cur []pluginItem)
		rec = func(cur []pluginItem) {
			if len(cur) > 0 {
				d := doc{expect: map[int]*section{}, skipLis: map[int]bool{}}
				d.text = fmt.Sprintf("server%d:\n%s%s", ver, lis, pluginsYAML(cur))
				shape := "valid"
				for _, it := range cur {
					if it.skip {
						d.skipAll = true
						shape = "silent"
					}
				}
				if !d.skipAll {
					for _, it := range cur {
						if it.reject {
							d.reject = true
							shape = "two-plugins-in-item"
						}
					}
				}
				if !d.reject && !d.skipAll {
					d.expect[ver] = &section{plugins: append([]pluginItem{}, cur...), listen: lisAddr}
				}
				eval(r, d, fmt.Sprintf("items%d-%s/v%d", len(cur), shape, ver))
			}
			if len(cur) == maxItems {
				return
			}
			for _, it := range items {
				rec(append(cur, it))
			}
		}
		rec(nil)
	}
	// (2) both sections / neither
	both := doc{expect: map[int]*section{
		4: {plugins: []pluginItem{items[1], items[0]}, listen: []net.UDPAddr{{IP: net.ParseIP("192.0.2.1"), Port: 67}}},
		6: {plugins: []pluginItem{items[5], items[2]}, listen: []net.UDPAddr{{IP: net.ParseIP("2001:db8::1"), Port: 547}}}}, skipLis: map[int]bool{}}
	both.text = "server6:\n  listen: '[2001:db8::1]'\n" + pluginsYAML([]pluginItem{items[5], items[2]}) + "server4:\n  listen: 192.0.2.1\n" + pluginsYAML([]pluginItem{items[1], items[0]})
	eval(r, both, "both-sections")
	// the same documents under other file names (extensions viper knows for other formats,
	// unknown extensions, none, upper case, a blank in the name)
	for _, n := range []string{"config-%d.yaml", "coredhcp-%d.conf", "dhcpd-%d.cfg", "config-%d.yml.new", "config-%d", "config-%d.json", "config-%d.toml", "config-%d.ini", "CONFIG-%d.YML", "core dhcp %d.yml", ".hidden-%d"} {
		nameTmpl = n
		eval(r, both, "both-sections/file-name")
		eval(r, doc{text: "server4:\n  listen: 192.0.2.1\n" + pluginsYAML(items[:3]), expect: map[int]*section{4: {plugins: items[:3], listen: []net.UDPAddr{{IP: net.ParseIP("192.0.2.1"), Port: 67}}}, 6: nil}, skipLis: map[int]bool{}}, "server4-only/file-name")
		eval(r, doc{text: "server4:\n  plugins:\n    - a: 1\n      b: 2\n", reject: true}, "two-key-item/file-name")
	}
	nameTmpl = "c18-%d.yml"
	// large files: the whole text counts, however long (plugin lists crossing 64 KiB / 1 MiB,
	// a second section behind 70 KiB of comments - valid and invalid)
	{
		var many []pluginItem
		for i := 0; i < 3000; i++ {
			many = append(many, pluginItem{yaml: fmt.Sprintf("dns: 10.%d.%d.1 10.9.9.9", i/250, i%250), name: "dns", args: []string{fmt.Sprintf("10.%d.%d.1", i/250, i%250), "10.9.9.9"}})
		}
		pad := strings.Repeat("# "+strings.Repeat("x", 98)+"\n", 720)
		eval(r, doc{text: "server4:\n  listen: 192.0.2.1\n" + pluginsYAML(many), expect: map[int]*section{4: {plugins: many, listen: []net.UDPAddr{{IP: net.ParseIP("192.0.2.1"), Port: 67}}}, 6: nil}, skipLis: map[int]bool{}}, "large/3000-plugins")
		eval(r, doc{text: "server4:\n  listen: 192.0.2.1\n" + pluginsYAML(items[:2]) + pad + "server6:\n  listen: '[2001:db8::1]'\n" + pluginsYAML([]pluginItem{items[5], items[2]}),
			expect: map[int]*section{4: {plugins: items[:2], listen: []net.UDPAddr{{IP: net.ParseIP("192.0.2.1"), Port: 67}}}, 6: {plugins: []pluginItem{items[5], items[2]}, listen: []net.UDPAddr{{IP: net.ParseIP("2001:db8::1"), Port: 547}}}}, skipLis: map[int]bool{}}, "large/second-section-after-70KiB")
		eval(r, doc{text: "server4:\n  listen: 192.0.2.1\n" + pluginsYAML(items[:2]) + pad + "server6:\n  listen: 192.0.2.9\n" + pluginsYAML([]pluginItem{items[5]}), reject: true}, "large/invalid-section-after-70KiB")
		eval(r, doc{text: pad + pad + "server4:\n  listen: 192.0.2.1\n" + pluginsYAML(items[:2]), expect: map[int]*section{4: {plugins: items[:2], listen: []net.UDPAddr{{IP: net.ParseIP("192.0.2.1"), Port: 67}}}, 6: nil}, skipLis: map[int]bool{}}, "large/section-after-140KiB")
	}
	noListen := doc{expect: map[int]*section{4: {plugins: one}}, skipLis: map[int]bool{4: true}}
	noListen.text = "server4:\n" + pluginsYAML(one)
	eval(r, noListen, "listen-absent/v4")
	noListen6 := doc{expect: map[int]*section{6: {plugins: one}}, skipLis: map[int]bool{6: true}}
	noListen6.text = "server6:\n" + pluginsYAML(one)
	eval(r, noListen6, "listen-absent/v6")
	// a section that is present but is not a mapping with a plugins list (scalar, list, empty
	// map), alone and next to a valid section of the other family: no plugins section => rejected
	valid6 := "server6:\n  listen: '[2001:db8::1]'\n" + pluginsYAML(one)
	valid4 := "server4:\n  listen: 192.0.2.1\n" + pluginsYAML(one)
	for _, x := range []string{"false", "disabled", "0", "''", "[plugins]", "{}", "{listen: 192.0.2.1}"} {
		eval(r, doc{text: "server4: " + x + "\n", reject: true}, "section-not-a-plugin-mapping/alone")
		eval(r, doc{text: "server4: " + x + "\n" + valid6, reject: true}, "section-not-a-plugin-mapping/v4-next-to-valid-v6")
		eval(r, doc{text: valid4 + "server6: " + x + "\n", reject: true}, "section-not-a-plugin-mapping/v6-next-to-valid-v4")
	}
	for name, t := range map[string]string{"empty-file": "", "comment-only": "# nothing\n", "other-key": "foo: bar\n", "server4-null": "server4:\n", "not-yaml": "{{{{", "tab-indent": "server4:\n\tplugins:\n"} {
		eval(r, doc{text: t, skipAll: true}, "degenerate/"+name)
	}
	// (3) no-panic closure
	seeds := []string{both.text, noListen.text,
		"server4:\n  listen:\n    - '%lo:67'\n    - 224.0.0.1\n" + pluginsYAML(items[:4]),
		"server6:\n  interface: lo\n" + pluginsYAML([]pluginItem{items[5], items[8]}),
		"server6:\n  listen: ['[ff02::1:2]', '[fe80::1%lo]:547']\n  plugins: [{dns: '2001:db8::1'}, {sleep: 1ms}]\n",
	}
	if !r.Quick() {
		seeds = append(seeds, "server4: {listen: [\"%lo\"], plugins: [{a: b}, {c: ~}]}\n", "server4:\n  listen: &a 0.0.0.0\n  plugins:\n    - x: *a\n", "server4:\n  listen: !!str 1\n  plugins:\n    - y: |\n        multi\n        line\n")
	}
	chars := []byte(": -[]{}\"'%#&*!|>\t\n~,")
	var wg sync.WaitGroup
	sem := make(chan struct{}, 16)
	for si, seed := range seeds {
		for pos := 0; pos <= len(seed); pos++ {
			pos, si, seed := pos, si, seed
			wg.Add(1)
			sem <- struct{}{}
			go func() {
				defer wg.Done()
				defer func() { <-sem }()
				var muts []string
				if pos < len(seed) {
					muts = append(muts, seed[:pos]+seed[pos+1:]) // delete
					muts = append(muts, seed[:pos])              // truncate
				}
				for _, ch := range chars {
					muts = append(muts, seed[:pos]+string(ch)+seed[pos:]) // insert
					if pos < len(seed) {
						muts = append(muts, seed[:pos]+string(ch)+seed[pos+1:]) // replace
					}
				}
				for _, m := range muts {
					_, err, pan := load(m)
					if pan != "" {
						r.Violate("C18/panic", "config.Load panicked: "+pan, Case{Doc: m})
					}
					if err != nil {
						r.Eval(fmt.Sprintf("mutant/seed%d/error", si))
					} else {
						r.Eval(fmt.Sprintf("mutant/seed%d/loaded", si))
					}
				}
			}()
		}
	}
	wg.Wait()
}

func addrKind(a addrSpec, ver int) string {
	switch {
	case a.skip:
		return "silent"
	case a.reject:
		return "garbage"
	case a.ver != ver && !a.any:
		return "wrong-family"
	case a.mcast:
		return "multicast-expanded"
	case a.zone != "":
		return "zoned"
	case a.ip == "":
		return "wildcard"
	}
	return "plain"
}

func replay(r *ev.Run, raw json.RawMessage) {
	var c Case
	if err := json.Unmarshal(raw, &c); err != nil {
		r.Violate("C18/replay/bad-file", err.Error(), nil)
		return
	}
	if c.File != "" {
		nameTmpl = c.File
	}
	cfg, err, pan := load(c.Doc)
	fmt.Printf("  load: err=%v panic=%q\n", err, pan)
	if cfg != nil {
		fmt.Printf("  server4=%+v\n  server6=%+v\n", cfg.Server4, cfg.Server6)
	}
	if c.Expect == nil {
		if pan != "" {
			r.Violate("C18/panic", pan, c)
		}
		return
	}
	d := *c.Expect
	d.text = c.Doc
	eval(r, d, c.Class)
}
