// Package c20: prefix arithmetic (allocators.Offset / AddPrefixes) against math/big.
// Complete cross product of the boundary alphabets + complete small windows (DESIGN 5/C20).
package c20

import (
	"encoding/hex"
	"encoding/json"
	"errors"
	"fmt"
	"math/big"
	"net"
	"os"
	"strings"
	"sync"
	"time"

	"github.com/coredhcp/coredhcp/plugins/allocators"

	"verifmc/ev"
	"verifmc/reg"
	"verifmc/sched"
	"verifmc/verifsched"
)

func init() {
	reg.Register(&reg.Check{ID: "C20", Level: "exploration", Run: run, Replay: replay})
}

type Case struct {
	Fn   string `json:"fn"`   // "offset" | "offset-rev" | "add" | "inverse"
	Base string `json:"base"` // hex, 16 bytes
	X    string `json:"x,omitempty"`
	N    string `json:"n,omitempty"` // decimal
	P    int    `json:"p"`
}

var (
	one    = big.NewInt(1)
	two64  = new(big.Int).Lsh(one, 64)
	two128 = new(big.Int).Lsh(one, 128)
)

func toIP(v *big.Int) net.IP {
	b := v.Bytes()
	ip := make(net.IP, 16)
	copy(ip[16-len(b):], b)
	return ip
}

func fromIP(ip net.IP) *big.Int { return new(big.Int).SetBytes(ip) }

func pclass(p int) string {
	switch {
	case p < 64:
		return "p<64"
	case p == 64:
		return "p=64"
	default:
		return "p>64"
	}
}

// evalOffset checks Offset(x, base, p) (or reversed) against floor((x-base)/2^(128-p)).
func evalOffset(r *ev.Run, base, x *big.Int, p int, rev bool) {
	size := new(big.Int).Lsh(one, uint(128-p))
	want := new(big.Int).Div(new(big.Int).Sub(x, base), size)
	wantErr := want.Cmp(two64) >= 0
	a, b := toIP(x), toIP(base)
	fn := "offset"
	if rev {
		a, b = b, a
		fn = "offset-rev"
	}
	c := Case{Fn: fn, Base: hex.EncodeToString(toIP(base)), X: hex.EncodeToString(toIP(x)), P: p}
	got, err := allocators.Offset(a, b, p)
	class := fn + "/" + pclass(p)
	switch {
	case wantErr && err == nil:
		r.Violate("C20/"+fn+"/missing-overflow/"+pclass(p), fmt.Sprintf("Offset(%s,%s,%d)=%d, nil; true index %s needs >64 bits", net.IP(a), net.IP(b), p, got, want), c)
	case wantErr:
		class += "/overflow"
		if !errors.Is(err, allocators.ErrOverflow) {
			class += "-othererr"
		}
	case err != nil:
		r.Violate("C20/"+fn+"/spurious-error/"+pclass(p), fmt.Sprintf("Offset(%s,%s,%d) errs %v; want %s", net.IP(a), net.IP(b), p, err, want), c)
	case new(big.Int).SetUint64(got).Cmp(want) != 0:
		r.Violate("C20/"+fn+"/wrong-index/"+pclass(p), fmt.Sprintf("Offset(%s,%s,%d)=%d want %s", net.IP(a), net.IP(b), p, got, want), c)
	default:
		class += "/ok"
		if want.Sign() == 0 {
			class += "-zero"
		} else if want.BitLen() > 32 {
			class += "-big"
		}
	}
	r.Eval(class)
	r.Sample(class, c)
}

// evalAdd checks AddPrefixes(base, n, p) and, when it succeeds, the inverse law.
func evalAdd(r *ev.Run, base *big.Int, n uint64, p int) {
	size := new(big.Int).Lsh(one, uint(128-p))
	want := new(big.Int).Add(base, new(big.Int).Mul(new(big.Int).SetUint64(n), size))
	wantErr := want.Cmp(two128) >= 0
	c := Case{Fn: "add", Base: hex.EncodeToString(toIP(base)), N: fmt.Sprint(n), P: p}
	baseIP := toIP(base)
	got, err := allocators.AddPrefixes(baseIP, n, uint64(p))
	class := "add/" + pclass(p)
	switch {
	case wantErr && err == nil:
		r.Violate("C20/add/wrapped-no-error/"+pclass(p), fmt.Sprintf("AddPrefixes(%s,%d,%d)=%s, nil; true result is beyond 2^128", baseIP, n, p, got), c)
	case wantErr:
		class += "/overflow"
	case err != nil:
		r.Violate("C20/add/spurious-error/"+pclass(p), fmt.Sprintf("AddPrefixes(%s,%d,%d) errs %v; want %s", baseIP, n, p, err, toIP(want)), c)
	case len(got) != 16 || fromIP(got).Cmp(want) != 0:
		r.Violate("C20/add/wrong-address/"+pclass(p), fmt.Sprintf("AddPrefixes(%s,%d,%d)=%s want %s", baseIP, n, p, got, toIP(want)), c)
	default:
		class += "/ok"
		if n == 0 {
			class += "-zero"
		} else if want.Rsh(new(big.Int).Set(want), 64).Cmp(new(big.Int).Rsh(base, 64)) != 0 && p > 64 {
			class += "-carry"
		}
		// inverse law
		back, err2 := allocators.Offset(got, baseIP, p)
		if err2 != nil || back != n {
			ci := c
			ci.Fn = "inverse"
			r.Violate("C20/inverse/"+pclass(p), fmt.Sprintf("Offset(AddPrefixes(%s,%d,%d)=%s)=%d,%v want %d", baseIP, n, p, got, back, err2, n), ci)
		}
		r.Eval("inverse/" + pclass(p))
	}
	r.Eval(class)
	r.Sample(class, c)
}

// aliasing: the functions are pure - the result depends only on the argument VALUES. Every
// ordered pair of base patterns is pushed through ONE reused 16-byte buffer (first base, call,
// overwrite with the second base, call): the second results must equal those for a fresh
// slice. (Whether a result may share memory with an argument is not the property's business:
// AddPrefixes(ip, 0, p) returns its argument.)
func aliasing(r *ev.Run) {
	pats := patterns()
	for _, p := range []int{0, 1, 31, 32, 63, 64, 65, 96, 127, 128} {
		size := new(big.Int).Lsh(one, uint(128-p))
		for _, a := range pats {
			for _, b := range pats {
				ba, bb := maskTo(a, p), maskTo(b, p)
				if ba.Cmp(bb) == 0 {
					continue
				}
				buf := make(net.IP, 16)
				xbuf := make(net.IP, 16)
				for _, n := range []uint64{0, 1, 5} {
					c := Case{Fn: "aliasing", Base: hex.EncodeToString(toIP(ba)), X: hex.EncodeToString(toIP(bb)), N: fmt.Sprint(n), P: p}
					// first use of the buffers
					copy(buf, toIP(ba))
					xa := new(big.Int).Add(ba, new(big.Int).Mul(new(big.Int).SetUint64(n), size))
					if xa.Cmp(two128) >= 0 {
						xa = ba
					}
					copy(xbuf, toIP(xa))
					// (three call orders, so that whichever function looks at the buffer first
					// and last is covered)
					switch (int(n) + p) % 3 {
					case 0:
						allocators.AddPrefixes(buf, n, uint64(p))
					case 1:
						allocators.Offset(xbuf, buf, p)
						allocators.AddPrefixes(buf, n, uint64(p))
					default:
						allocators.AddPrefixes(buf, n, uint64(p))
						allocators.Offset(xbuf, buf, p)
						allocators.Offset(buf, xbuf, p)
					}
					// same memory, other values
					copy(buf, toIP(bb))
					xb := new(big.Int).Add(bb, new(big.Int).Mul(new(big.Int).SetUint64(n), size))
					if xb.Cmp(two128) >= 0 {
						xb = bb
					}
					copy(xbuf, toIP(xb))
					got, err := allocators.AddPrefixes(buf, n, uint64(p))
					fresh, ferr := allocators.AddPrefixes(toIP(bb), n, uint64(p))
					// against the reference as well: a stale cache answers the fresh slice too
					wantAdd := new(big.Int).Add(bb, new(big.Int).Mul(new(big.Int).SetUint64(n), size))
					if wantAdd.Cmp(two128) < 0 && (err != nil || fromIP(got).Cmp(wantAdd) != 0) {
						r.Violate("C20/aliasing/add-depends-on-history", fmt.Sprintf("AddPrefixes(%s,%d,%d) after the same buffer held %s = %v,%v; want %s", toIP(bb), n, p, toIP(ba), got, err, toIP(wantAdd)), c)
					} else if wantAdd.Cmp(two128) >= 0 && err == nil {
						r.Violate("C20/aliasing/add-depends-on-history", fmt.Sprintf("AddPrefixes(%s,%d,%d) after the same buffer held %s = %v without error; the true result is beyond 2^128", toIP(bb), n, p, toIP(ba), got), c)
					}
					if (err == nil) != (ferr == nil) || (err == nil && !got.Equal(fresh)) {
						r.Violate("C20/aliasing/add-depends-on-history", fmt.Sprintf("AddPrefixes(%s,%d,%d) through a reused buffer = %v,%v; with a fresh slice %v,%v", toIP(bb), n, p, got, err, fresh, ferr), c)
					}
					copy(buf, toIP(bb))
					for _, rev := range []bool{false, true} {
						x, y := net.IP(xbuf), net.IP(buf)
						fx, fy := toIP(xb), toIP(bb)
						if rev {
							x, y, fx, fy = y, x, fy, fx
						}
						o1, e1 := allocators.Offset(x, y, p)
						o2, e2 := allocators.Offset(fx, fy, p)
						if wantOff := new(big.Int).SetUint64(n); xb.Cmp(bb) != 0 && (e1 != nil || new(big.Int).SetUint64(o1).Cmp(wantOff) != 0) && wantOff.IsUint64() {
							r.Violate("C20/aliasing/offset-depends-on-history", fmt.Sprintf("Offset(%s,%s,%d) after the buffers held other addresses = %d,%v; want %d", x, y, p, o1, e1, n), c)
						}
						if (e1 == nil) != (e2 == nil) || o1 != o2 {
							r.Violate("C20/aliasing/offset-depends-on-history", fmt.Sprintf("Offset(%s,%s,%d) through reused buffers = %d,%v; with fresh slices %d,%v", x, y, p, o1, e1, o2, e2), c)
						}
					}
					r.Eval("aliasing/" + pclass(p))
				}
			}
		}
	}
}

// concurrent: Offset and AddPrefixes are called from several goroutines at once in the server
// (allocator index computations happen outside the allocator lock). Two threads, each one call
// with its own operands, under ALL schedules up to 2 preemptions at statement granularity
// (this check is built with plugins/allocators instrumented): every result equals math/big.
func concurrent(r *ev.Run) {
	if os.Getenv("VERIF_SCHED") != "1" {
		r.Capped("concurrent callers skipped: binary not built with the instrumentation overlay")
		return
	}
	type call struct {
		fn   string
		a, b *big.Int
		n    uint64
		p    int
	}
	h := func(s string) *big.Int { v, _ := new(big.Int).SetString(s, 16); return v }
	calls := []call{
		{"offset", h("20010db8000001000500000000000000"), h("20010db8000001000000000000000000"), 0, 72},
		{"offset", h("20010db8000000050000000000000000"), h("20010db8000000000000000000000000"), 0, 64},
		{"offset", h("ffffffffffffffffffffffffffffffff"), h("00000000000000000000000000000000"), 0, 1},
		{"add", h("20010db8000000000000000000000000"), nil, 5, 64},
		{"add", h("ffffffffffffffff0000000000000000"), nil, 1, 64},
	}
	eval := func(c call) string {
		if c.fn == "offset" {
			o, err := allocators.Offset(toIP(c.a), toIP(c.b), c.p)
			return fmt.Sprint(o, err != nil)
		}
		ip, err := allocators.AddPrefixes(toIP(c.a), c.n, uint64(c.p))
		return fmt.Sprint(ip, err != nil)
	}
	want := func(c call) string {
		size := new(big.Int).Lsh(one, uint(128-c.p))
		if c.fn == "offset" {
			q := new(big.Int).Div(new(big.Int).Sub(maskTo(c.a, c.p), maskTo(c.b, c.p)), size)
			if q.Cmp(two64) >= 0 {
				return fmt.Sprint(0, true)
			}
			return fmt.Sprint(q.Uint64(), false)
		}
		s := new(big.Int).Add(c.a, new(big.Int).Mul(new(big.Int).SetUint64(c.n), size))
		if s.Cmp(two128) >= 0 {
			return fmt.Sprint(net.IP(nil), true)
		}
		return fmt.Sprint(toIP(s), false)
	}
	var total, steps int64
	for i := range calls {
		for j := range calls {
			// (i == j: the same operands from two callers at once - two clients naming one block)
			ci, cj := calls[i], calls[j]
			name := fmt.Sprintf("%s(%d)||%s(%d)", ci.fn, i, cj.fn, j)
			sc := sched.Scenario{Name: "concurrent/" + name, Setup: func(run *verifsched.Run) func(*verifsched.Run) sched.Exec {
				var ri, rj string
				// every execution starts from the same call history (whatever the functions
				// may remember from earlier calls is overwritten by this fixed prologue)
				allocators.Offset(toIP(h("00000000000000000000000000000777")), toIP(big.NewInt(0)), 128)
				allocators.AddPrefixes(toIP(h("00000000000000000000000000000777")), 1, 128)
				run.Spawn("t0", func() { ri = eval(ci) })
				run.Spawn("t1", func() { rj = eval(cj) })
				return func(*verifsched.Run) sched.Exec {
					var ex sched.Exec
					ex.Outcome = ri + " | " + rj
					if ri != want(ci) {
						ex.Violations = append(ex.Violations, sched.Viol{Sig: "wrong-result-under-concurrency", What: fmt.Sprintf("%s(%x,%x,n=%d,p=%d) = %s while another call ran, want %s", ci.fn, ci.a, ci.b, ci.n, ci.p, ri, want(ci))})
					}
					if rj != want(cj) {
						ex.Violations = append(ex.Violations, sched.Viol{Sig: "wrong-result-under-concurrency", What: fmt.Sprintf("%s(%x,%x,n=%d,p=%d) = %s while another call ran, want %s", cj.fn, cj.a, cj.b, cj.n, cj.p, rj, want(cj))})
					}
					return ex
				}
			}}
			res := sched.Explore(sc, 2, 60*time.Second)
			if strings.Contains(res.EngineError, "replay divergence") {
				// the same schedule prefix led to another execution: the functions keep state
				// between calls that the prologue does not reset. The schedules cannot be
				// enumerated reproducibly then; fall back to free-running callers (a sample,
				// reported as such) judged against the reference.
				r.Capped(res.Scenario + ": executions are not reproducible (hidden state between calls); free-running fallback")
				for round := 0; round < 300; round++ {
					var wg sync.WaitGroup
					var bad [2]string
					for k, c := range []call{ci, cj} {
						k, c := k, c
						wg.Add(1)
						go func() {
							defer wg.Done()
							for n := 0; n < 200; n++ {
								if got := eval(c); got != want(c) {
									bad[k] = got
								}
							}
						}()
					}
					wg.Wait()
					for k, c := range []call{ci, cj} {
						if bad[k] != "" {
							r.Violate("C20/concurrent/wrong-result-under-concurrency", fmt.Sprintf("%s(%x,%x,n=%d,p=%d) = %s while another goroutine was calling, want %s (free-running)", c.fn, c.a, c.b, c.n, c.p, bad[k], want(c)), map[string]interface{}{"fn": "concurrent", "scenario": res.Scenario})
							round = 1 << 30
						}
					}
				}
				continue
			}
			if res.EngineError != "" {
				panic("E2 engine error in " + res.Scenario + ": " + res.EngineError)
			}
			total += res.Schedules
			steps += res.Steps
			if res.Truncated {
				r.Capped(res.Scenario + ": time budget hit")
			}
			for _, f := range res.Found {
				r.Violate("C20/"+res.Scenario+"/"+f.Sig, fmt.Sprintf("schedule %v: %s", f.Choices, f.What), map[string]interface{}{"fn": "concurrent", "scenario": res.Scenario, "schedule": f.Choices})
			}
			r.EvalN("concurrent/"+ci.fn+"||"+cj.fn, res.Schedules)
		}
	}
	if steps < 4*total {
		panic("E2 engine error in C20 concurrent scenarios: no scheduling points were hit (plugins/allocators not instrumented?)")
	}
	r.Add("schedules", total)
	r.Add("schedule_points", steps)
}

// heldResults: a returned address belongs to the caller. Results are kept while 300 further
// calls are made (and fed back as bases at every distance up to 130): they keep their value.
func heldResults(r *ev.Run) {
	for _, p := range []int{1, 56, 64, 72, 128} {
		size := new(big.Int).Lsh(one, uint(128-p))
		base := maskTo(patterns()[2], p)
		type held struct {
			ip   net.IP
			want *big.Int
			n    uint64
		}
		var hs []held
		for n := uint64(1); n <= 300; n++ {
			want := new(big.Int).Add(base, new(big.Int).Mul(new(big.Int).SetUint64(n), size))
			if want.Cmp(two128) >= 0 {
				break
			}
			ip, err := allocators.AddPrefixes(toIP(base), n, uint64(p))
			if err != nil {
				break
			}
			hs = append(hs, held{ip, want, n})
			// every result handed out so far still reads what it read when it was returned
			for _, h := range hs {
				if fromIP(h.ip).Cmp(h.want) != 0 {
					r.Violate("C20/held-result-changed", fmt.Sprintf("the address returned by AddPrefixes(%s,%d,%d) read %s when returned and reads %s after %d further calls", toIP(base), h.n, p, toIP(h.want), h.ip, n-h.n), Case{Fn: "held", Base: hex.EncodeToString(toIP(base)), N: fmt.Sprint(h.n), P: p})
					return
				}
			}
			// an earlier result used as the base of the next call
			if k := len(hs) - 1 - int(n%131); k >= 0 {
				b := hs[k]
				got, err := allocators.AddPrefixes(b.ip, 3, uint64(p))
				w := new(big.Int).Add(b.want, new(big.Int).Mul(big.NewInt(3), size))
				if w.Cmp(two128) < 0 && (err != nil || fromIP(got).Cmp(w) != 0) {
					r.Violate("C20/held-result-changed", fmt.Sprintf("AddPrefixes(earlier result %s,3,%d) = %v,%v want %s", toIP(b.want), p, got, err, toIP(w)), Case{Fn: "held", Base: hex.EncodeToString(toIP(b.want)), N: "3", P: p})
					return
				}
				if off, err := allocators.Offset(got, b.ip, p); w.Cmp(two128) < 0 && (err != nil || off != 3) {
					r.Violate("C20/held-result-changed", fmt.Sprintf("Offset(AddPrefixes(earlier result %s,3,%d), that result) = %d,%v want 3", toIP(b.want), p, off, err), Case{Fn: "held", Base: hex.EncodeToString(toIP(b.want)), N: "3", P: p})
					return
				}
				if w.Cmp(two128) < 0 {
					hs = append(hs, held{got, w, 3})
				}
			}
		}
		r.Eval("held-results/" + pclass(p))
	}
}

func patterns() []*big.Int {
	h := func(s string) *big.Int { v, _ := new(big.Int).SetString(s, 16); return v }
	return []*big.Int{
		big.NewInt(0),
		h("ffffffffffffffffffffffffffffffff"),
		h("20010db8000000000000000000000000"),
		h("0000000000000000ffffffffffffffff"),
		h("ffffffffffffffff0000000000000000"),
		h("7fffffffffffffffffffffffffffffff"),
		h("80000000000000000000000000000000"),
		h("aaaaaaaaaaaaaaaa5555555555555555"),
		h("00000000000000000000ffffffffffff"), // top of the IPv4-mapped range ::ffff:0:0/96
		h("00000000000000000000ffff0a000000"), // ::ffff:10.0.0.0
		h("0000000000000000000000000a000001"), // IPv4-compatible ::10.0.0.1
	}
}

func maskTo(v *big.Int, p int) *big.Int {
	r := new(big.Int).Rsh(v, uint(128-p))
	return r.Lsh(r, uint(128-p))
}

func distances(base *big.Int, p int) []*big.Int {
	size := new(big.Int).Lsh(one, uint(128-p))
	pow := func(k uint, d int64) *big.Int { return new(big.Int).Add(new(big.Int).Lsh(one, k), big.NewInt(d)) }
	last := new(big.Int).Div(new(big.Int).Sub(two128, base), size)
	last.Sub(last, one)
	ds := []*big.Int{big.NewInt(0), big.NewInt(1), big.NewInt(2), pow(8, 0), pow(32, -1), pow(32, 0), pow(63, -1), pow(63, 0), pow(64, -1), pow(64, 0), pow(64, 1), last, new(big.Int).Add(last, one)}
	return ds
}

// thoroughPatterns: every single-bit, all-ones-below-a-bit and two-bit pattern of 128 bits.
func thoroughPatterns() []*big.Int {
	var out []*big.Int
	for i := 0; i < 128; i++ {
		b := new(big.Int).Lsh(one, uint(i))
		out = append(out, b, new(big.Int).Sub(b, one))
		for j := i + 1; j < 128; j += 3 {
			out = append(out, new(big.Int).Add(b, new(big.Int).Lsh(one, uint(j))))
		}
	}
	return out
}

// thoroughDistances: 2^k-1, 2^k, 2^k+1 for every k up to 65, and the last blocks.
func thoroughDistances(base *big.Int, p int) []*big.Int {
	ds := distances(base, p)
	for k := uint(0); k <= 65; k++ {
		b := new(big.Int).Lsh(one, k)
		ds = append(ds, new(big.Int).Sub(b, one), b, new(big.Int).Add(b, one))
	}
	return ds
}

func run(r *ev.Run) {
	pats, dist := patterns(), distances
	if !r.Quick() {
		pats = append(pats, thoroughPatterns()...)
		dist = thoroughDistances
		r.Rule("thorough: base patterns extended by every single-bit, 2^k-1 and (every third) two-bit pattern of 128 bits (5 700 patterns); distances extended by 2^k-1, 2^k, 2^k+1 for k = 0..65.")
	}
	r.Rule("complete product: p in 0..128 x 11 base bit patterns (incl. IPv4-mapped and IPv4-compatible addresses) masked to /p x 13 block distances (0,1,2,2^8,2^32-1,2^32,2^63-1,2^63,2^64-1,2^64,2^64+1,last block,last+1) x in-block offset {0,1,size-1} x both argument orders for Offset; AddPrefixes+inverse for every distance < 2^64; every ordered pair of base patterns through one reused argument buffer (purity: same result as with fresh slices); returned addresses held across 300 further calls and fed back as bases keep their value; two concurrent callers (every ordered pair of 5 representative calls, incl. the same call twice) under all schedules up to 2 preemptions at statement granularity; plus complete windows n=0..300 around the 2^64 and 2^128 carries for p in {0,1,2,62..66,126,127,128}. Reference: math/big. Class = function/p-range/outcome.")
	r.Assume("values outside the listed bit patterns / distances are not explored; only carry/borrow/shift shapes are exhaustive")
	seenCase := map[string]bool{}
	for p := 0; p <= 128; p++ {
		size := new(big.Int).Lsh(one, uint(128-p))
		for _, pat := range pats {
			base := maskTo(pat, p)
			for _, d := range dist(base, p) {
				blk := new(big.Int).Add(base, new(big.Int).Mul(d, size))
				key := fmt.Sprintf("%d/%x/%s", p, base, d)
				if seenCase[key] {
					continue
				}
				seenCase[key] = true
				for _, off := range []*big.Int{big.NewInt(0), one, new(big.Int).Sub(size, one)} {
					if off.Cmp(size) >= 0 {
						continue
					}
					x := new(big.Int).Add(blk, off)
					if x.Cmp(two128) >= 0 {
						continue
					}
					evalOffset(r, base, x, p, false)
					evalOffset(r, base, x, p, true)
				}
				if d.IsUint64() {
					evalAdd(r, base, d.Uint64(), p)
				}
			}
		}
	}
	aliasing(r)
	heldResults(r)
	concurrent(r)
	// complete windows
	for _, p := range []int{0, 1, 2, 62, 63, 64, 65, 66, 126, 127, 128} {
		size := new(big.Int).Lsh(one, uint(128-p))
		bases := []*big.Int{big.NewInt(0)}
		if p > 64 {
			b := new(big.Int).Sub(two64, new(big.Int).Mul(big.NewInt(128), size))
			if b.Sign() >= 0 {
				bases = append(bases, b)
			}
		}
		b := new(big.Int).Sub(two128, new(big.Int).Mul(big.NewInt(256), size))
		if b.Sign() > 0 {
			bases = append(bases, b)
		}
		for _, base := range bases {
			for n := uint64(0); n <= 300; n++ {
				evalAdd(r, base, n, p)
				x := new(big.Int).Add(base, new(big.Int).Mul(new(big.Int).SetUint64(n), size))
				if x.Cmp(two128) < 0 {
					evalOffset(r, base, x, p, false)
					evalOffset(r, base, x, p, true)
				}
			}
		}
	}
}

func replay(r *ev.Run, raw json.RawMessage) {
	var c Case
	if err := json.Unmarshal(raw, &c); err != nil {
		r.Violate("C20/replay/bad-file", err.Error(), nil)
		return
	}
	bb, _ := hex.DecodeString(c.Base)
	base := new(big.Int).SetBytes(bb)
	switch c.Fn {
	case "aliasing":
		aliasing(r)
	case "held":
		heldResults(r)
	case "concurrent":
		concurrent(r)
	case "offset", "offset-rev":
		xb, _ := hex.DecodeString(c.X)
		evalOffset(r, base, new(big.Int).SetBytes(xb), c.P, c.Fn == "offset-rev")
	default:
		n, _ := new(big.Int).SetString(c.N, 10)
		evalAdd(r, base, n.Uint64(), c.P)
	}
}
