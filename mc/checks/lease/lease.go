// Package lease: C02 (DHCPv4 dynamic leases in range, unique, sticky) and C03 (the lease DB
// always restores the same bindings) on the real range plugin with real sqlite on tmpfs.
// Engine E1: BFS to fixpoint; every state is also a crash/restart point for C03.
package lease

import (
	"context"
	"database/sql"
	"encoding/binary"
	"encoding/hex"
	"encoding/json"
	"fmt"
	"io"
	"net"
	"os"
	"path/filepath"
	"sort"
	"strings"
	"sync"
	"sync/atomic"
	"time"

	"github.com/coredhcp/coredhcp/handler"
	"github.com/coredhcp/coredhcp/plugins/leasetime"
	rangeplugin "github.com/coredhcp/coredhcp/plugins/range"
	"github.com/insomniacslk/dhcp/dhcpv4"

	"verifmc/checks/alloc"
	"verifmc/checks/c16"
	"verifmc/ev"
	"verifmc/explore"
	"verifmc/pkt"
	"verifmc/reg"
	"verifmc/sched"
	"verifmc/srv"
	"verifmc/verifsched"
)

func init() {
	for _, id := range []string{"C02", "C03"} {
		id := id
		reg.Register(&reg.Check{ID: id, Level: map[string]string{"C02": "model_checking", "C03": "fault_enumeration"}[id],
			Run: func(r *ev.Run) { describe(r); reg.Isolated(r, id, 3*time.Hour) },
			Worker: func(a []string) int {
				r := ev.New(id, reg.Tier, map[string]string{"C02": "model_checking", "C03": "fault_enumeration"}[id])
				run(r, id)
				return reg.WorkerExit(r)
			},
			Replay: func(r *ev.Run, c json.RawMessage) { replayCase(r, id, c) }})
	}
}

type Conf struct {
	Start    string   `json:"start"`
	End      string   `json:"end"`
	Lease    string   `json:"lease"`
	Prefill  int      `json:"prefill,omitempty"`                 // clients bound before the explored history starts
	PreLease bool     `json:"lease_time_plugin_first,omitempty"` // chain: lease_time 7200s, then range
	NoShift  bool     `json:"-"`                                 // leave the edited-range restart out of the alphabet
	Lean     bool     `json:"lean_alphabet,omitempty"`           // requests, same-lease restart and aging only (for the largest graph)
	MACs     []string `json:"macs"`                              // hex chaddr of the clients in the alphabet
	Fixture  string   `json:"database_fixture,omitempty"`        // "" = the plugin creates its database; else see fixtureDB
}

type Op struct {
	Kind  string `json:"kind"`                          // discover | request | restart | age
	MAC   string `json:"mac,omitempty"`                 // hex chaddr (any length 0..16)
	Host  string `json:"host,omitempty"`                // hex of option 12; "" = absent
	Lease string `json:"lease,omitempty"`               // restart: lease time argument
	Shift int    `json:"range_shift,omitempty"`         // restart with the configured range moved by this many addresses
	CID   string `json:"client_id,omitempty"`           // hex of option 61; "" = absent
	Dur   string `json:"elapsed,omitempty"`             // age: how much time passes (default 2h1s)
	Lock  string `json:"database_locked_for,omitempty"` // another connection holds the write lock this long while the request is handled
	XCode int    `json:"extra_option,omitempty"`        // one more option (code) ...
	XData string `json:"extra_option_data,omitempty"`   // ... with this payload (hex)
	RO    bool   `json:"read_only_db,omitempty"`        // restart with the lease database opened read-only (fault: it cannot be written any more)
}

type Case struct {
	Conf Conf `json:"config"`
	Hist []Op `json:"history"`
}

var seq atomic.Int64

type Sys struct {
	r        *ev.Run
	id       string
	conf     Conf
	db       string
	h        handler.Handler4
	inst     *rangeplugin.PluginState
	lease    string
	first    map[string]string    // ghost: chaddr hex -> address first replied
	prom     map[string]time.Time // ghost: chaddr hex -> end of the lease last promised, measured from the harness clock before the reply
	hist     []Op
	start    uint32
	end      uint32
	dead     bool
	broken   bool
	aged     map[string]bool // ghost: clients whose lease ran out since they were last answered
	shift    int             // the range currently configured is conf's moved by this much
	crash    bool            // evaluate the crash/restart oracle after every live op
	ro       bool            // the lease database is read-only since the last restart (fault injected by the harness)
	agedLong map[string]bool // ghost: clients whose lease ran out more than two days ago
}

func ip2u(s string) uint32 { return binary.BigEndian.Uint32(net.ParseIP(s).To4()) }

func u2ip(u uint32) string {
	b := make(net.IP, 4)
	binary.BigEndian.PutUint32(b, u)
	return b.String()
}

func NewSys(r *ev.Run, id string, c Conf, crash bool) *Sys {
	s := &Sys{r: r, id: id, conf: c, first: map[string]string{}, prom: map[string]time.Time{}, aged: map[string]bool{}, agedLong: map[string]bool{}, lease: c.Lease, start: ip2u(c.Start), end: ip2u(c.End), crash: crash}
	s.db = filepath.Join(srv.Scratch(), fmt.Sprintf("lease-%d.sqlite", seq.Add(1)))
	if c.Fixture != "" {
		s.fixtureDB()
	}
	if err := s.setup(s.db, c.Lease); err != nil {
		if c.Fixture != "" {
			// refusing a database of another version is a legitimate start-up error
			s.dead = true
			return s
		}
		panic(err)
	}
	for i := 0; i < c.Prefill; i++ {
		mac := fmt.Sprintf("02ff0000%04x", i)
		s.Apply(Op{Kind: "discover", MAC: mac}, false)
	}
	s.hist = nil
	return s
}

// releasedSchema is the leases4 table as the released plugin creates it: a lease database
// found at start-up was normally written by an earlier run of that version.
const releasedSchema = "create table if not exists leases4 (mac string not null, ip string not null, expiry int, hostname string not null, primary key (mac, ip))"

// fixtureDB writes the database the plugin is started on: state carried over from a previous
// installation ("released-schema": the table only; "released-schema+lease": one unexpired
// lease of a background client on the first address, as that version stores it).
func (s *Sys) fixtureDB() {
	db, err := sql.Open("sqlite3", "file:"+s.db)
	if err != nil {
		panic(err)
	}
	defer db.Close()
	if _, err := db.Exec(releasedSchema); err != nil {
		panic(err)
	}
	if s.conf.Fixture == "released-schema+lease" {
		mac := "02:ff:00:00:00:00"
		if _, err := db.Exec("insert or replace into leases4(mac, ip, expiry, hostname) values (?, ?, ?, ?)", mac, s.conf.Start, verifsched.Now().Add(24*time.Hour).Unix(), "old"); err != nil {
			panic(err)
		}
		s.first["02ff00000000"] = s.conf.Start
		s.prom["02ff00000000"] = verifsched.Now()
	}
}

func (s *Sys) setup(db, lease string) error {
	defer reg.OpBegin(fmt.Sprintf("range %s-%s: Setup4 on %s after %d ops", s.conf.Start, s.conf.End, filepath.Base(db), len(s.hist)))()
	h, err := rangeplugin.Plugin.Setup4(db, u2ip(s.start), u2ip(s.end), lease)
	if err != nil {
		return err
	}
	s.h = h
	s.inst = rangeplugin.VerifInstance(db)
	rangeplugin.VerifForget(db)
	return nil
}

// Terminal reports that this state must not be explored further.
func (s *Sys) Terminal() bool { return s.dead || s.broken }

func (s *Sys) Close() {
	if s.inst != nil {
		s.inst.VerifClose()
	}
	os.Remove(s.db)
	os.Remove(s.db + "-journal")
}

func (s *Sys) Ops() []Op {
	if s.dead || s.broken {
		return nil
	}
	var ops []Op
	for i, m := range s.conf.MACs {
		ops = append(ops, Op{Kind: "discover", MAC: m})
		ops = append(ops, Op{Kind: "request", MAC: m, Host: hex.EncodeToString([]byte("h"))})
		// option 61: the binding is a function of the hardware address, whatever identifier the
		// client sends - one opaque identifier shared by all clients, and the conventional
		// htype||chaddr form
		if s.conf.Lean {
			continue
		}
		ops = append(ops, Op{Kind: "discover", MAC: m, CID: "00636c69656e74"})
		if i == 0 {
			ops = append(ops, Op{Kind: "request", MAC: m, CID: "01" + m})
			if len(s.conf.MACs) > 1 && len(s.conf.MACs[1]) == 12 {
				// ... and one that spells ANOTHER client's hardware address
				ops = append(ops, Op{Kind: "discover", MAC: m, CID: "01" + s.conf.MACs[1]})
				ops = append(ops, Op{Kind: "request", MAC: m, CID: "01" + s.conf.MACs[1]})
			}
		}
	}
	if s.ro {
		// nothing written from here on can be expected on disk: only requests are explored
		return ops
	}
	ops = append(ops, Op{Kind: "restart", Lease: s.conf.Lease})
	if !s.conf.NoShift {
		ops = append(ops, Op{Kind: "restart", Lease: s.conf.Lease, RO: true})
	}
	other := "1h"
	if s.conf.Lease == "1h" {
		other = "60s"
	}
	if !s.conf.Lean {
		ops = append(ops, Op{Kind: "restart", Lease: other})
	}
	if s.shift == 0 && !s.conf.NoShift {
		// the operator edits the range (start and end one address higher) and restarts on the
		// same database: start-up may refuse, but it must not keep serving outside the range
		ops = append(ops, Op{Kind: "restart", Lease: s.conf.Lease, Shift: 1})
	}
	if len(s.aged) < len(s.first) {
		// wall-clock time passes: every lease handed out so far runs out
		ops = append(ops, Op{Kind: "age"})
	}
	if len(s.agedLong) < len(s.first) && !s.conf.Lean {
		// ... and two days later
		ops = append(ops, Op{Kind: "age", Dur: "49h"})
	}
	return ops
}

func (s *Sys) ghostKey() string {
	var g []string
	for m, ip := range s.first {
		if !strings.HasPrefix(m, "02ff0000") { // prefilled clients are fixed background
			g = append(g, m+"="+ip)
		}
	}
	sort.Strings(g)
	return strings.Join(g, ",")
}

func (s *Sys) Key() string {
	if s.dead {
		return "dead"
	}
	if s.broken {
		return "property-violated (terminal)"
	}
	d := s.inst.VerifDump()
	recs := d.Records
	if s.conf.Prefill > 0 {
		recs = nil
		for _, r := range d.Records {
			if !strings.HasPrefix(r, "02:ff:00:00") {
				recs = append(recs, r)
			}
		}
	}
	var ag []string
	for m := range s.aged {
		ag = append(ag, m)
	}
	for m := range s.agedLong {
		ag = append(ag, "long:"+m)
	}
	sort.Strings(ag)
	return fmt.Sprintf("recs=%v nbits=%d lease=%v ghost=%s expired=%v shift=%d ro=%v", recs, len(d.Bits), d.LeaseTime, s.ghostKey(), ag, s.shift, s.ro)
}

func (s *Sys) violate(prop, sig, what string) {
	if prop != s.id {
		return
	}
	// a state in which the property is already violated is not explored further: broken
	// states can have unboundedly many successors (e.g. a bitmap that grows past the pool)
	s.broken = true
	s.r.Violate(prop+"/"+sig, fmt.Sprintf("range %s-%s: %s (history of %d ops)", s.conf.Start, s.conf.End, what, len(s.hist)), Case{s.conf, append([]Op{}, s.hist...)})
}

func buildReq(op Op) []byte {
	mac, _ := hex.DecodeString(op.MAC)
	p := pkt.V4{Op: 1, HType: 1, HLen: byte(len(mac)), Xid: 0x02020202, Flags: 0x8000}
	copy(p.CHAddr[:], mac)
	mt := byte(1)
	if op.Kind == "request" {
		mt = 3
	}
	p.Opts = []pkt.Opt4{{Code: 53, Data: []byte{mt}}}
	if op.Host != "" {
		h, _ := hex.DecodeString(op.Host)
		p.Opts = append(p.Opts, pkt.Opt4{Code: 12, Data: h})
	}
	if op.CID != "" {
		c, _ := hex.DecodeString(op.CID)
		p.Opts = append(p.Opts, pkt.Opt4{Code: 61, Data: c})
	}
	if op.XCode != 0 {
		d, _ := hex.DecodeString(op.XData)
		p.Opts = append(p.Opts, pkt.Opt4{Code: byte(op.XCode), Data: d})
	}
	return p.Bytes()
}

func (s *Sys) nBound() int { return len(s.first) }

func (s *Sys) capacity() int { return int(s.end-s.start) + 1 }

func (s *Sys) Apply(op Op, live bool) (obs string) {
	if s.dead {
		return "dead"
	}
	s.hist = append(s.hist, op)
	class := op.Kind
	defer func() {
		if live {
			s.r.Eval(class)
			s.r.Sample(class, Case{s.conf, append([]Op{}, s.hist...)})
		}
	}()
	if op.Kind == "age" {
		// one hour and one second more than the longest lease time of the alphabet
		d := 2*time.Hour + time.Second
		if op.Dur != "" {
			var err error
			if d, err = time.ParseDuration(op.Dur); err != nil {
				panic(err)
			}
		}
		if err := s.inst.VerifAge(d); err != nil {
			panic(err)
		}
		if os.Getenv("VERIF_SCHED") == "1" {
			// the instrumented plugin reads the clock through the scheduler: whatever it keeps
			// in memory about "when" (not only the stored expiries) sees the time pass as well
			verifsched.AdvanceGlobal(d)
		}
		for m := range s.first {
			if op.Dur == "" || d >= 24*time.Hour {
				s.aged[m] = true
			}
			if d >= 24*time.Hour {
				s.agedLong[m] = true
			}
			s.prom[m] = s.prom[m].Add(-d)
		}
		return "aged"
	}
	if op.Kind == "restart" {
		before := s.inst.VerifDump()
		s.inst.VerifClose()
		if op.Shift != 0 {
			if s.end+uint32(op.Shift) < s.end {
				return "shift-impossible"
			}
			s.start, s.end, s.shift = s.start+uint32(op.Shift), s.end+uint32(op.Shift), s.shift+op.Shift
			if err := s.setup(s.db, op.Lease); err != nil {
				// refusing to start with leases outside the edited range is legitimate
				s.dead = true
				class += "/edited-range-refused"
				return "restart-refused-edited-range"
			}
			// it started: from now on every reply must lie in the NEW range (the oracles below
			// use s.start/s.end), and bindings still inside it must be kept
			s.lease = op.Lease
			class += "/edited-range-accepted"
			return "restart-ok-edited-range"
		}
		if op.RO {
			// environment fault: from now on the database cannot be written (SQLite URI mode=ro;
			// the same happens with a read-only file or directory). Refusing to start is fine.
			if err := s.setup(s.db+"?mode=ro", op.Lease); err != nil {
				s.dead = true
				class += "/read-only-refused"
				return "restart-refused-read-only"
			}
			s.ro, s.lease = true, op.Lease
			after := s.inst.VerifDump()
			if live && (fmt.Sprint(before.Records) != fmt.Sprint(after.Records) || fmt.Sprint(before.Bits) != fmt.Sprint(after.Bits)) {
				s.violate("C02", "restart-changes-bindings", fmt.Sprintf("bindings before restart on the read-only database %v bits %v, after %v bits %v", before.Records, before.Bits, after.Records, after.Bits))
				s.violate("C03", "restart-changes-bindings", fmt.Sprintf("bindings before restart on the read-only database %v, after %v", before.Records, after.Records))
			}
			class += "/read-only-ok"
			return "restart-ok-read-only"
		}
		err := s.setup(s.db, op.Lease)
		if err != nil {
			s.dead = true
			if live {
				s.violate("C02", "restart-fails", "restart on the plugin's own lease database failed: "+err.Error())
				s.violate("C03", "restart-fails/"+s.macLens(), "restart on the plugin's own lease database failed: "+err.Error())
			}
			class += "/failed"
			return "restart-failed"
		}
		s.lease = op.Lease
		after := s.inst.VerifDump()
		if live && (fmt.Sprint(before.Records) != fmt.Sprint(after.Records) || fmt.Sprint(before.Bits) != fmt.Sprint(after.Bits)) {
			s.violate("C02", "restart-changes-bindings", fmt.Sprintf("bindings before restart %v bits %v, after %v bits %v", before.Records, before.Bits, after.Records, after.Bits))
			s.violate("C03", "restart-changes-bindings", fmt.Sprintf("bindings before restart %v, after %v", before.Records, after.Records))
		}
		class += "/ok"
		return "restart-ok"
	}
	if s.inst.VerifLocked() {
		s.dead = true
		if live {
			s.violate("C02", "lock-left-held", "the range plugin mutex is held between requests: every later request blocks forever")
		}
		return "dead: mutex held"
	}
	req, err := dhcpv4.FromBytes(buildReq(op))
	if err != nil {
		panic(err)
	}
	resp, _ := dhcpv4.NewReplyFromRequest(req)
	if op.Kind == "request" {
		resp.UpdateOption(dhcpv4.OptMessageType(dhcpv4.MessageTypeAck))
	} else {
		resp.UpdateOption(dhcpv4.OptMessageType(dhcpv4.MessageTypeOffer))
	}
	unlocked := make(chan struct{})
	if op.Lock != "" {
		// environment: a backup job (BEGIN IMMEDIATE; copy; ROLLBACK) holds the write lock of the
		// lease file for a moment - far shorter than sqlite's busy timeout
		d, err := time.ParseDuration(op.Lock)
		if err != nil {
			panic(err)
		}
		other, err := sql.Open("sqlite3", "file:"+s.db)
		if err != nil {
			panic(err)
		}
		conn, err := other.Conn(context.Background())
		if err != nil {
			panic(err)
		}
		if _, err := conn.ExecContext(context.Background(), "BEGIN IMMEDIATE"); err != nil {
			panic(err)
		}
		go func() {
			time.Sleep(d)
			conn.ExecContext(context.Background(), "ROLLBACK")
			conn.Close()
			other.Close()
			close(unlocked)
		}()
	} else {
		close(unlocked)
	}
	tBefore := verifsched.Now() // the plugin's clock: real time + the virtual time that has passed
	var out *dhcpv4.DHCPv4
	var stop bool
	pan := func() (p string) {
		defer func() {
			if e := recover(); e != nil {
				p = fmt.Sprint(e)
			}
		}()
		defer verifsched.HoldClock()()
		defer reg.OpBegin(fmt.Sprintf("range %s-%s: %s from %s after %d ops", s.conf.Start, s.conf.End, op.Kind, op.MAC, len(s.hist)-1))()
		if s.conf.PreLease {
			resp, _ = preLeaseHandler()(req, resp)
		}
		out, stop = s.h(req, resp)
		return
	}()
	<-unlocked
	if pan != "" {
		s.dead = true
		if live {
			s.violate("C02", "panic", "handler panicked: "+pan)
			s.violate("C01", "history/range/panic", "the range handler panicked ("+pan+"): in the server this kills the process")
			s.violate("C19", "range/panic", fmt.Sprintf("the range handler of an accepted configuration (read-only database: %v) panicked: %s", s.ro, pan))
		}
		return "PANIC"
	}
	if s.inst.VerifLocked() {
		s.dead = true
		if live {
			s.violate("C02", "lock-left-held", "the range plugin returned with its mutex held: every later request blocks forever")
			s.violate("C01", "history/range/lock-left-held", "the range plugin returned with its mutex held: every later DHCPv4 datagram blocks forever")
		}
		return "LOCK-LEFT-HELD"
	}
	known, was := s.first[op.MAC]
	full := s.nBound() >= s.capacity()
	if out == nil {
		class += "/no-reply"
		if live {
			if !stop {
				s.violate("C02", "nil-without-stop", "nil response without stop")
			}
			if s.ro {
				// with an unwritable database declining to answer is a legitimate choice: only
				// the safety clauses (what a reply may contain, no crash) stay in force
			} else if was {
				s.violate("C02", "bound-client-not-served", fmt.Sprintf("client %s is bound to %s but got no reply", op.MAC, known))
			} else if !full {
				s.violate("C02", "no-reply-with-free-addresses", fmt.Sprintf("unknown client %s got no reply although only %d of %d addresses are bound", op.MAC, s.nBound(), s.capacity()))
			}
		}
		obs = "no-reply"
	} else {
		yi := out.YourIPAddr.To4()
		ys := net.IP(yi).String()
		obs = "yiaddr=" + ys
		class += "/reply"
		if live {
			if yi == nil || binary.BigEndian.Uint32(yi) < s.start || binary.BigEndian.Uint32(yi) > s.end {
				s.violate("C02", "outside-range", fmt.Sprintf("client %s was given %v, outside the configured range", op.MAC, out.YourIPAddr))
			}
			if was && ys != known {
				s.violate("C02", "address-changed", fmt.Sprintf("client %s was first given %s and now %s", op.MAC, known, ys))
			}
			for m, ip := range s.first {
				if m != op.MAC && ip == ys {
					s.violate("C02", "address-shared", fmt.Sprintf("address %s given to client %s is bound to client %s", ys, op.MAC, m))
				}
			}
			if !was && full {
				s.violate("C02", "reply-on-full-range", fmt.Sprintf("unknown client %s got %s although all %d addresses are bound", op.MAC, ys, s.capacity()))
			}
			lt, _ := time.ParseDuration(s.lease)
			w, _ := pkt.ParseV4(out.ToBytes())
			if d, n := w.Get(51); !s.conf.PreLease && (n != 1 || len(d) != 4 || binary.BigEndian.Uint32(d) != uint32(lt/time.Second)) {
				s.violate("C02", "lease-time", fmt.Sprintf("reply carries lease time option %x (x%d), configured %s", d, n, s.lease))
			}
			if was {
				class += "/returning"
			} else {
				class += "/new"
			}
		}
		if !was {
			s.first[op.MAC] = ys
		}
		delete(s.aged, op.MAC)
		delete(s.agedLong, op.MAC)
		// the end of the lease promised to the client is what the reply says (option 51)
		ltNow, _ := time.ParseDuration(s.lease)
		if w, err := pkt.ParseV4(out.ToBytes()); err == nil {
			if d, n := w.Get(51); n == 1 && len(d) == 4 {
				ltNow = time.Duration(binary.BigEndian.Uint32(d)) * time.Second
			}
		}
		s.prom[op.MAC] = tBefore.Add(ltNow)
	}
	if live && s.crash && !s.ro {
		s.crashCheck()
	}
	return obs
}

func (s *Sys) macLens() string {
	m := map[int]bool{}
	for k := range s.first {
		m[len(k)/2] = true
	}
	var l []int
	for k := range m {
		if k != 6 && k != 8 {
			l = append(l, k)
		}
	}
	sort.Ints(l)
	if len(l) == 0 {
		return "chaddr-len=6or8"
	}
	return strings.ReplaceAll(strings.Trim(fmt.Sprint(l), "[]"), " ", "+") + "-byte-chaddr"
}

func copyFile(src, dst string) error {
	in, err := os.Open(src)
	if err != nil {
		return err
	}
	defer in.Close()
	out, err := os.Create(dst)
	if err != nil {
		return err
	}
	defer out.Close()
	_, err = io.Copy(out, in)
	return err
}

// crashCheck: the DB as it is on disk right now is copied (the crash image) and the real
// plugin is started on the copy; what it restores must be exactly what has been promised.
func (s *Sys) crashCheck() {
	img := fmt.Sprintf("%s.crash%d", s.db, seq.Add(1))
	if err := copyFile(s.db, img); err != nil {
		panic(err)
	}
	defer os.Remove(img)
	if _, err := os.Stat(s.db + "-journal"); err == nil {
		copyFile(s.db+"-journal", img+"-journal")
		defer os.Remove(img + "-journal")
	}
	s.checkImage(img, "")
}

// checkImage starts the real plugin on a DB image. inflight (chaddr hex), when set, is a
// client whose request was being handled when the image was taken.
func (s *Sys) checkImage(img, inflight string) {
	h, err := rangeplugin.Plugin.Setup4(img, u2ip(s.start), u2ip(s.end), s.lease)
	s.r.Add("crash_images", 1)
	if err != nil {
		s.violate("C03", "restart-fails/"+s.macLens(), fmt.Sprintf("starting the plugin on the database it wrote fails: %v", err))
		return
	}
	inst := rangeplugin.VerifInstance(img)
	rangeplugin.VerifForget(img)
	defer inst.VerifClose()
	_ = h
	d := inst.VerifDump()
	got := map[string]string{}
	for _, rec := range d.Records {
		kv := strings.SplitN(rec, "=", 2)
		got[strings.ReplaceAll(kv[0], ":", "")] = kv[1]
	}
	for m, ip := range s.first {
		g, ok := got[m]
		switch {
		case !ok:
			s.violate("C03", "binding-lost", fmt.Sprintf("binding %s -> %s was replied to the client but is not restored", m, ip))
		case g != ip:
			s.violate("C03", "binding-changed", fmt.Sprintf("binding %s -> %s restored as %s", m, ip, g))
		}
		if ok && !strings.HasPrefix(m, "02ff0000") {
			macStr := net.HardwareAddr(mustHex(m)).String()
			exp := inst.VerifExpiry(macStr)
			min := s.prom[m].Unix() - 1
			if int64(exp) < min {
				s.violate("C03", "expiry-too-early", fmt.Sprintf("stored expiry %d of %s is earlier than the promised end of lease %d", exp, m, min+1))
			}
		}
	}
	seen := map[string]string{}
	for m, ip := range got {
		if _, ok := s.first[m]; !ok && m != inflight {
			s.violate("C03", "phantom-binding", fmt.Sprintf("restored binding %s -> %s was never handed out", m, ip))
		}
		if o, dup := seen[ip]; dup {
			s.violate("C03", "duplicate-address", fmt.Sprintf("address %s restored for both %s and %s", ip, o, m))
		}
		seen[ip] = m
	}
	if len(d.Bits) != len(got) {
		s.violate("C03", "allocator-mismatch", fmt.Sprintf("%d bindings restored but %d addresses marked allocated", len(got), len(d.Bits)))
	}
	// rows on disk: one per client
	if db, err := sql.Open("sqlite3", "file:"+img+"?mode=ro"); err == nil {
		var rows, macs int
		db.QueryRow("select count(*), count(distinct mac) from leases4").Scan(&rows, &macs)
		db.Close()
		if rows != macs {
			s.violate("C03", "duplicate-rows", fmt.Sprintf("%d rows for %d clients in leases4", rows, macs))
		}
	}
}

func mustHex(s string) []byte { b, _ := hex.DecodeString(s); return b }

func confs(thorough bool) []Conf {
	m := func(n int) []string {
		// adversarial choice: the 8-byte address starts with the first client's 6 bytes, the
		// second differs from the first only in its last byte
		all := []string{"020000000a01", "020000000a02", "020000000a01fffe", "820000000a01", "020000000e05"}
		return all[:n]
	}
	cs := []Conf{
		{Start: "10.0.0.10", End: "10.0.0.11", Lease: "60s", MACs: m(3)},
		{Start: "10.0.0.254", End: "10.0.1.0", Lease: "1h", MACs: m(4), NoShift: !thorough}, // crosses .255/.0
	}
	if thorough {
		cs = append(cs,
			Conf{Start: "10.0.0.0", End: "10.0.0.64", Lease: "60s", Prefill: 63, MACs: m(3)},
			Conf{Start: "255.255.255.192", End: "255.255.255.255", Lease: "60s", Prefill: 62, MACs: m(3)},
			Conf{Start: "10.0.0.10", End: "10.0.0.13", Lease: "60s", MACs: m(5), NoShift: true, Lean: true},
		)
	}
	return cs
}

func describe(r *ev.Run) {
	r.Rule("E1: BFS to fixpoint over the real range plugin on a real sqlite file (tmpfs). Ops: DISCOVER(m), REQUEST(m, hostname) for N+1 clients (one with an 8-byte chaddr) on ranges of N addresses, RESTART (Setup4 again on the same file) with the same and with another lease time; thorough adds pre-filled ranges (65 addresses with 63 bound: bitmap word boundary; a range ending at 255.255.255.255). State key = records + bitmap + lease time (hook H3) + ghost of the address first replied to each client. For C03 every state reached is a crash point: the DB file is copied and the real plugin started on the copy. Linear sweeps: ranges of 1..257 addresses filled to exhaustion; chaddr lengths 0..16 and hostile hostnames with a restart after each. Further ops of the alphabet: option 61 variants, restart with the range moved, restart on the database opened read-only (environment fault), all leases aged by 2 h. Sweeps: time gaps of 1 s .. 61 min between two requests of one client (3 lease times); every other option code in 3 payload shapes added to requests (irrelevant-option closure); upgrade histories on a harness-written database with the released schema. C03 additionally: statement-level crash points and lock-contention scenarios under the cooperative scheduler with a virtual clock. Class = op/outcome.")
	r.Assume("sqlite's own journal recovery (crash inside one SQL statement) and I/O errors other than a read-only database are not modelled; the clock is only compared one-sidedly; the exploration runs in a worker process so that a fatal error of the code under test is reported, not suffered")
}

// graphBudget is the wall-clock budget of one state graph (hitting it truncates the search:
// exhaustive=false with the depth reached, never a verdict).
func graphBudget(r *ev.Run) time.Duration {
	if r.Quick() {
		return 10 * time.Minute
	}
	return 12 * time.Minute
}

func run(r *ev.Run, id string) {
	for _, c := range confs(!r.Quick()) {
		c := c
		res := explore.Explore(r, explore.Config[Op]{
			Name:        fmt.Sprintf("%s-%s", c.Start, c.End),
			New:         func() explore.Sys[Op] { return NewSys(r, id, c, id == "C03") },
			CheckMerges: c.Prefill == 0,
			MaxStates:   50000,
			Deadline:    time.Now().Add(graphBudget(r)),
		})
		r.Sample("graph", map[string]interface{}{"config": c, "states": res.States, "transitions": res.Transitions, "depth": res.Depth, "fixpoint": res.Fixpoint, "merge_checks": res.MergeChecks})
	}
	sweeps(r, id)
	if id == "C02" {
		runSched(r)
	} else {
		runCrashPoints(r)
		runContention(r)
	}
}

var runSched = c16.SchedPart("C02", 4)

// irrelevantOptions: the binding is a function of the hardware address. For every option
// code and three payload shapes, two clients ask with and without that option in both orders
// on a fresh 2-address range; all oracles of Apply stay on (same address for the same
// hardware address, different addresses for different ones, database restorable).
func irrelevantOptions(r *ev.Run, id string) {
	conf := Conf{Start: "10.0.0.10", End: "10.0.0.11", Lease: "60s", NoShift: true, MACs: []string{"020000000a01", "020000000b02"}}
	a, b := conf.MACs[0], conf.MACs[1]
	for _, x := range pkt.Extra4(12) {
		xd := hex.EncodeToString(x.Data)
		for _, hist := range [][]Op{
			{{Kind: "discover", MAC: a, XCode: int(x.Code), XData: xd}, {Kind: "request", MAC: a}, {Kind: "discover", MAC: b}, {Kind: "request", MAC: b, XCode: int(x.Code), XData: xd}, {Kind: "discover", MAC: a}},
			{{Kind: "discover", MAC: a}, {Kind: "discover", MAC: b, XCode: int(x.Code), XData: xd}, {Kind: "request", MAC: a, XCode: int(x.Code), XData: xd}, {Kind: "restart", Lease: "60s"}, {Kind: "request", MAC: b}},
		} {
			s := NewSys(r, id, conf, id == "C03")
			for _, op := range hist {
				s.Apply(op, true)
				if s.Terminal() {
					break
				}
			}
			s.Close()
		}
		r.Add("irrelevant_option_histories", 2)
	}
}

// gaps: the time between two requests of one client, from a second to beyond the lease time.
// After every request the database image must promise at least what the reply promised.
func gaps(r *ev.Run, id string) {
	a, b := "020000000a01", "020000000b02"
	for _, lease := range []string{"60s", "1h", "10s"} {
		conf := Conf{Start: "10.0.0.10", End: "10.0.0.12", Lease: lease, NoShift: true, MACs: []string{a, b}}
		for _, gap := range []string{"1s", "2s", "3s", "5s", "9s", "10s", "11s", "30s", "59s", "61s", "10m", "59m", "61m"} {
			for _, kinds := range [][2]string{{"discover", "request"}, {"request", "request"}, {"discover", "discover"}} {
				s := NewSys(r, id, conf, id == "C03")
				for _, op := range []Op{{Kind: kinds[0], MAC: a}, {Kind: "discover", MAC: b}, {Kind: "age", Dur: gap}, {Kind: kinds[1], MAC: a}, {Kind: "age", Dur: gap}, {Kind: kinds[1], MAC: a}, {Kind: "restart", Lease: lease}, {Kind: "request", MAC: b}} {
					s.Apply(op, true)
					if s.Terminal() {
						break
					}
				}
				s.Close()
				r.Add("gap_histories", 1)
			}
		}
	}
}

// upgrades: the plugin started on a database left by the released version (fixture), then
// requests and restarts: bindings handed out since then survive the next restart.
func upgrades(r *ev.Run, id string) {
	b, d := "020000000b02", "020000000d04"
	for _, fx := range []string{"released-schema", "released-schema+lease"} {
		conf := Conf{Start: "10.0.0.10", End: "10.0.0.12", Lease: "60s", NoShift: true, MACs: []string{b, d}, Fixture: fx}
		for _, hist := range [][]Op{
			{{Kind: "discover", MAC: b}, {Kind: "restart", Lease: "60s"}, {Kind: "discover", MAC: d}, {Kind: "request", MAC: b}, {Kind: "restart", Lease: "60s"}, {Kind: "request", MAC: d}},
			{{Kind: "request", MAC: b, Host: hex.EncodeToString([]byte("h"))}, {Kind: "request", MAC: b}, {Kind: "age"}, {Kind: "request", MAC: b}, {Kind: "restart", Lease: "60s"}, {Kind: "discover", MAC: d}, {Kind: "discover", MAC: b}},
		} {
			s := NewSys(r, id, conf, id == "C03")
			for _, op := range hist {
				if s.Terminal() {
					break
				}
				s.Apply(op, true)
			}
			s.Close()
			r.Add("upgrade_histories", 1)
		}
	}
}

// lockedWrites: while a request is handled another connection holds the database's write lock
// for 300 ms (a backup job); the lease handed out meanwhile must be on disk afterwards.
func lockedWrites(r *ev.Run, id string) {
	a, b, c := "020000000a01", "020000000b02", "020000000c03"
	conf := Conf{Start: "10.0.0.10", End: "10.0.0.13", Lease: "60s", NoShift: true, MACs: []string{a, b, c}}
	for _, hist := range [][]Op{
		{{Kind: "discover", MAC: a}, {Kind: "discover", MAC: b, Lock: "300ms"}, {Kind: "restart", Lease: "60s"}, {Kind: "discover", MAC: c}, {Kind: "request", MAC: b}},
		{{Kind: "discover", MAC: a}, {Kind: "age"}, {Kind: "request", MAC: a, Lock: "300ms"}, {Kind: "restart", Lease: "60s"}, {Kind: "request", MAC: a}},
	} {
		s := NewSys(r, id, conf, id == "C03")
		for _, op := range hist {
			if s.Terminal() {
				break
			}
			s.Apply(op, true)
		}
		s.Close()
		r.Add("locked_write_histories", 1)
	}
}

func sweeps(r *ev.Run, id string) {
	lockedWrites(r, id)
	upgrades(r, id)
	gaps(r, id)
	irrelevantOptions(r, id)
	thorough := !r.Quick()
	// range sizes, filled to exhaustion then everybody asks again, then restart
	sizes := []int{1, 2, 63, 64, 65}
	if thorough {
		sizes = append(sizes, 3, 127, 128, 129, 256, 257)
	}
	for _, st := range []string{"10.0.0.0", "255.255.255.255"} {
		for _, n := range sizes {
			var c Conf
			if st == "255.255.255.255" {
				e := uint32(0xffffffff)
				sb := make(net.IP, 4)
				binary.BigEndian.PutUint32(sb, e-uint32(n)+1)
				c = Conf{Start: sb.String(), End: st, Lease: "60s"}
			} else {
				eb := make(net.IP, 4)
				binary.BigEndian.PutUint32(eb, ip2u(st)+uint32(n)-1)
				c = Conf{Start: st, End: eb.String(), Lease: "60s"}
			}
			if c.Start == c.End {
				// the plugin insists on start < end: a one-address range cannot be configured
				continue
			}
			s := NewSys(r, id, c, false)
			for i := 0; i < n+1; i++ {
				s.Apply(Op{Kind: "discover", MAC: fmt.Sprintf("0200%08x", i)}, true)
			}
			for i := 0; i < n+1; i += 1 + n/7 {
				s.Apply(Op{Kind: "request", MAC: fmt.Sprintf("0200%08x", i)}, true)
			}
			s.Apply(Op{Kind: "restart", Lease: "60s"}, true)
			s.Apply(Op{Kind: "request", MAC: fmt.Sprintf("0200%08x", n-1)}, true)
			s.Apply(Op{Kind: "discover", MAC: "02aa00000001"}, true)
			if id == "C03" {
				s.crashCheck()
			}
			s.Close()
			r.Add("sweep_ranges", 1)
		}
	}
	if id == "C03" {
		// a renewal after real time has passed must push the stored expiry forward: the clock
		// cannot be controlled (time.Now is called directly), so this one history sleeps
		c := Conf{Start: "10.0.0.10", End: "10.0.0.13", Lease: "60s"}
		s := NewSys(r, id, c, true)
		s.Apply(Op{Kind: "discover", MAC: "020000000a01"}, true)
		time.Sleep(2100 * time.Millisecond)
		s.Apply(Op{Kind: "request", MAC: "020000000a01"}, true)
		s.Apply(Op{Kind: "restart", Lease: "60s"}, true)
		s.crashCheck()
		s.Close()
		r.Add("renewal_after_real_delay", 1)
	}
	if id == "C03" {
		// another plugin promised a longer lease before range ran: what is stored must cover
		// what the reply promises
		c := Conf{Start: "10.0.0.10", End: "10.0.0.13", Lease: "60s", PreLease: true}
		s := NewSys(r, id, c, true)
		s.Apply(Op{Kind: "discover", MAC: "020000000a01"}, true)
		s.Apply(Op{Kind: "request", MAC: "020000000a01"}, true)
		s.Apply(Op{Kind: "request", MAC: "020000000b02", Host: hex.EncodeToString([]byte("h"))}, true)
		s.Apply(Op{Kind: "restart", Lease: "60s"}, true)
		s.Apply(Op{Kind: "request", MAC: "020000000a01"}, true)
		s.Close()
		r.Add("chain_lease_time_before_range", 1)
	}
	// chaddr lengths and hostnames: one instance each, restart after every reply
	var macs []string
	for l := 0; l <= 16; l++ {
		macs = append(macs, strings.Repeat("a1", l))
	}
	macs = append(macs, "05", "12", "00", "0000000000", "1e3f")
	hosts := []string{"", "h", "007", "1e3", "-0", "0x10", " ", "\x00", "\xff\xfe", strings.Repeat("x", 255), "a'b\"c;--", "NULL"}
	for _, m := range macs {
		c := Conf{Start: "10.0.0.10", End: "10.0.0.13", Lease: "60s"}
		s := NewSys(r, id, c, id == "C03")
		s.Apply(Op{Kind: "discover", MAC: "020000000a01"}, true)
		s.Apply(Op{Kind: "discover", MAC: m}, true)
		s.Apply(Op{Kind: "restart", Lease: "60s"}, true)
		s.Apply(Op{Kind: "request", MAC: m}, true)
		s.Apply(Op{Kind: "request", MAC: "020000000a01"}, true)
		s.Close()
		r.Add("sweep_chaddr_lengths", 1)
	}
	for _, h := range hosts {
		c := Conf{Start: "10.0.0.10", End: "10.0.0.13", Lease: "60s"}
		s := NewSys(r, id, c, id == "C03")
		s.Apply(Op{Kind: "discover", MAC: "020000000a01", Host: hex.EncodeToString([]byte(h))}, true)
		s.Apply(Op{Kind: "request", MAC: "020000000b02", Host: hex.EncodeToString([]byte(h))}, true)
		s.Apply(Op{Kind: "restart", Lease: "1h"}, true)
		s.Apply(Op{Kind: "request", MAC: "020000000a01", Host: hex.EncodeToString([]byte(h))}, true)
		s.Close()
		r.Add("sweep_hostnames", 1)
	}
}

// Replay re-runs a stored history for the property named id.
func Replay(r *ev.Run, id string, raw json.RawMessage) { replayCase(r, id, raw) }

func replayCase(r *ev.Run, id string, raw json.RawMessage) {
	var sc struct {
		Scenario string `json:"scenario"`
		Schedule []int  `json:"schedule"`
	}
	if json.Unmarshal(raw, &sc) == nil && strings.HasPrefix(sc.Scenario, "expiry/") {
		for _, cs := range contentionScenarios(true) {
			if "expiry/"+cs.Name != sc.Scenario {
				continue
			}
			first := ""
			for i := 0; i < 3; i++ {
				ex, viols, eng := sched.ReplayOne(cs.scenario(r), sc.Schedule)
				if eng != "" {
					panic(eng)
				}
				if i == 0 {
					first = ex.Outcome
					fmt.Printf("  scenario %s schedule %v\n  outcome: %s\n", sc.Scenario, sc.Schedule, ex.Outcome)
					for _, v := range viols {
						r.Violate(id+"/sched/"+sc.Scenario+"/"+v.Sig, v.What, map[string]interface{}{"scenario": sc.Scenario, "schedule": sc.Schedule})
					}
				} else if ex.Outcome != first {
					panic("replay is not deterministic: " + ex.Outcome + " vs " + first)
				}
			}
		}
		return
	}
	if json.Unmarshal(raw, &sc) == nil && sc.Scenario != "" {
		c16.ReplaySchedule(r, id, sc.Scenario, sc.Schedule)
		return
	}
	var c Case
	if err := json.Unmarshal(raw, &c); err != nil {
		r.Violate(id+"/replay/bad-file", err.Error(), nil)
		return
	}
	s := NewSys(r, id, c.Conf, id == "C03")
	defer s.Close()
	for i, op := range c.Hist {
		obs := s.Apply(op, true)
		b, _ := json.Marshal(op)
		fmt.Printf("  step %d: %s -> %s ; %s\n", i, b, obs, s.Key())
	}
}

// runCrashPoints: crash-point enumeration at statement granularity. For every history of up
// to 3 requests (2 clients, with/without hostname), the LAST request is executed as a single
// thread under the cooperative scheduler; before every statement of the instrumented handler
// and storage code the lease database is copied and the real plugin is started on the copy.
func runCrashPoints(r *ev.Run) {
	if os.Getenv("VERIF_SCHED") != "1" {
		r.Capped("statement-level crash points skipped: binary not built with the instrumentation overlay")
		return
	}
	alpha := []Op{
		{Kind: "discover", MAC: "020000000a01"},
		{Kind: "request", MAC: "020000000a01", Host: hex.EncodeToString([]byte("h"))},
		{Kind: "discover", MAC: "020000000b02fffe"},
		{Kind: "request", MAC: "020000000c03"},
	}
	maxLen := 2
	if !r.Quick() {
		maxLen = 3
	}
	conf := Conf{Start: "10.0.0.10", End: "10.0.0.11", Lease: "60s"}
	var rec func(prefix []Op)
	rec = func(prefix []Op) {
		if len(prefix) > 0 {
			s := NewSys(r, "C03", conf, false)
			for _, op := range prefix[:len(prefix)-1] {
				s.Apply(op, false)
			}
			last := prefix[len(prefix)-1]
			run := verifsched.NewRun(nil)
			points := 0
			run.OnResume = func() {
				points++
				img := fmt.Sprintf("%s.stmt%d", s.db, seq.Add(1))
				if err := copyFile(s.db, img); err != nil {
					panic(err)
				}
				if _, err := os.Stat(s.db + "-journal"); err == nil {
					copyFile(s.db+"-journal", img+"-journal")
				}
				imgs = append(imgs, img)
			}
			pre, preProm := map[string]string{}, map[string]time.Time{}
			for k, v := range s.first {
				pre[k] = v
			}
			for k, v := range s.prom {
				preProm[k] = v
			}
			run.Spawn("handler", func() { s.Apply(last, false) })
			run.Start()
			// evaluate the images outside the controlled run (Setup4 takes real locks), against
			// what had been promised BEFORE the in-flight request: its reply was not sent yet
			s.first, s.prom = pre, preProm
			s.hist = append([]Op{}, prefix...)
			for _, img := range imgs {
				s.checkImage(img, last.MAC)
				os.Remove(img)
				os.Remove(img + "-journal")
			}
			imgs = imgs[:0]
			r.Add("statement_crash_points", int64(points))
			r.Eval(fmt.Sprintf("crash-points/len=%d", len(prefix)))
			if points == 0 {
				panic("crash-point engine error: handler executed without scheduling points (instrumentation missing)")
			}
			s.Close()
		}
		if len(prefix) == maxLen {
			return
		}
		for _, op := range alpha {
			rec(append(append([]Op{}, prefix...), op))
		}
	}
	rec(nil)
}

var imgs []string

var (
	preLeaseOnce sync.Once
	preLeaseH    handler.Handler4
)

// preLeaseHandler is the real lease_time plugin configured with 7200s (set up once per
// process: its configuration is a package global).
func preLeaseHandler() handler.Handler4 {
	preLeaseOnce.Do(func() {
		h, err := leasetime.Plugin.Setup4("7200s")
		if err != nil {
			panic(err)
		}
		preLeaseH = h
	})
	return preLeaseH
}

// ReadOnlyDB explores, for the property named id, every history of up to n requests before and
// after a restart on a lease database that has become read-only (fault injection; a start-up
// error is accepted). Oracles are those of Apply (for C19: the handler never panics).
func ReadOnlyDB(r *ev.Run, id string, n int) {
	conf := Conf{Start: "10.0.0.10", End: "10.0.0.11", Lease: "60s", NoShift: true, MACs: []string{"020000000a01", "020000000b02", "020000000c03"}}
	var alpha []Op
	for _, m := range conf.MACs {
		alpha = append(alpha, Op{Kind: "discover", MAC: m}, Op{Kind: "request", MAC: m, Host: hex.EncodeToString([]byte("h"))})
	}
	var rec func(hist []Op, roAt int)
	rec = func(hist []Op, roAt int) {
		if roAt >= 0 && len(hist) > roAt+1 {
			s := NewSys(r, id, conf, false)
			for i, op := range hist {
				s.Apply(op, i == len(hist)-1)
				if s.Terminal() {
					break
				}
			}
			s.Close()
			r.Add("read_only_db_histories", 1)
		}
		if roAt < 0 && len(hist) < n {
			rec(append(append([]Op{}, hist...), Op{Kind: "restart", Lease: conf.Lease, RO: true}), len(hist))
		}
		if (roAt < 0 && len(hist) < n) || (roAt >= 0 && len(hist) < roAt+1+n) {
			for _, op := range alpha {
				rec(append(append([]Op{}, hist...), op), roAt)
			}
		}
	}
	rec(nil, -1)
}

// ---- stored expiry under lock contention (C03, engine E2 with a virtual clock) ------------
//
// Two or three requests race for the range plugin's mutex under the cooperative scheduler. The
// instrumented plugin reads the clock through verifsched.Now: running code takes no virtual
// time, every wait for a lock takes waitCost. After each schedule the plugin is started on a
// copy of the database and the stored expiry of every client must not be earlier than the end
// of the lease most recently promised to it: (virtual time when its handler returned) + lease
// time, minus the store's one second and minus a real-time tolerance that is small against
// waitCost and far above any execution time of a handler.

const (
	waitCost      = 10 * time.Minute
	realTolerance = 5 * time.Minute
)

type contScen struct {
	Name    string
	Pre     []Op
	Threads []Op
}

func contentionScenarios(thorough bool) []contScen {
	a, b := "020000000a01", "020000000b02"
	h := hex.EncodeToString([]byte("h"))
	out := []contScen{
		{"new||new", nil, []Op{{Kind: "discover", MAC: a}, {Kind: "discover", MAC: b}}},
		{"renew||new", []Op{{Kind: "discover", MAC: a}}, []Op{{Kind: "request", MAC: a, Host: h}, {Kind: "discover", MAC: b}}},
		{"renew||renew", []Op{{Kind: "discover", MAC: a}, {Kind: "discover", MAC: b}}, []Op{{Kind: "request", MAC: a}, {Kind: "request", MAC: b, Host: h}}},
		{"same-client-twice", nil, []Op{{Kind: "discover", MAC: a}, {Kind: "request", MAC: a}}},
	}
	if thorough {
		out = append(out,
			contScen{"new||new||new", nil, []Op{{Kind: "discover", MAC: a}, {Kind: "discover", MAC: b}, {Kind: "discover", MAC: "020000000c03"}}},
			contScen{"renew||renew||new", []Op{{Kind: "discover", MAC: a}, {Kind: "discover", MAC: b}}, []Op{{Kind: "request", MAC: a}, {Kind: "request", MAC: b}, {Kind: "discover", MAC: "020000000c03"}}},
		)
	}
	return out
}

func (cs contScen) scenario(r *ev.Run) sched.Scenario {
	conf := Conf{Start: "10.0.0.10", End: "10.0.0.13", Lease: "60s"}
	lt := 60 * time.Second
	return sched.Scenario{Name: "expiry/" + cs.Name, Setup: func(run *verifsched.Run) func(*verifsched.Run) sched.Exec {
		run.WaitCost = waitCost
		db := filepath.Join(srv.Scratch(), fmt.Sprintf("lease-cont-%d.sqlite", seq.Add(1)))
		h, err := rangeplugin.Plugin.Setup4(db, conf.Start, conf.End, conf.Lease)
		if err != nil {
			panic(err)
		}
		inst := rangeplugin.VerifInstance(db)
		rangeplugin.VerifForget(db)
		call := func(op Op) (*dhcpv4.DHCPv4, time.Time) {
			req, err := dhcpv4.FromBytes(buildReq(op))
			if err != nil {
				panic(err)
			}
			resp, _ := dhcpv4.NewReplyFromRequest(req)
			out, _ := h(req, resp)
			return out, verifsched.Now()
		}
		for _, op := range cs.Pre {
			call(op)
		}
		type res struct {
			replied bool
			ret     time.Time
			ip      string
		}
		results := make([]res, len(cs.Threads))
		for i, op := range cs.Threads {
			i, op := i, op
			run.Spawn(fmt.Sprintf("t%d:%s(%s)", i, op.Kind, op.MAC), func() {
				defer reg.OpBegin(fmt.Sprintf("contention scenario %s: thread %d", cs.Name, i))()
				out, ret := call(op)
				if out != nil {
					results[i] = res{true, ret, out.YourIPAddr.String()}
				}
			})
		}
		return func(run *verifsched.Run) sched.Exec {
			var ex sched.Exec
			defer func() {
				os.Remove(db)
				os.Remove(db + "-journal")
			}()
			if inst.VerifLocked() {
				ex.Outcome = "lock-left-held"
				return ex
			}
			inst.VerifClose()
			h2, err := rangeplugin.Plugin.Setup4(db, conf.Start, conf.End, conf.Lease)
			if err != nil {
				ex.Violations = append(ex.Violations, sched.Viol{Sig: "restart-fails", What: err.Error()})
				return ex
			}
			_ = h2
			inst2 := rangeplugin.VerifInstance(db)
			rangeplugin.VerifForget(db)
			defer inst2.VerifClose()
			promised := map[string]time.Time{}
			for i, op := range cs.Threads {
				if results[i].replied {
					end := results[i].ret.Add(lt)
					if end.After(promised[op.MAC]) {
						promised[op.MAC] = end
					}
				}
			}
			var macs []string
			for m := range promised {
				macs = append(macs, m)
			}
			sort.Strings(macs)
			out := fmt.Sprintf("waits=%d", run.Waits)
			for _, m := range macs {
				exp := int64(inst2.VerifExpiry(net.HardwareAddr(mustHex(m)).String()))
				min := promised[m].Add(-time.Second - realTolerance).Unix()
				late := "ok"
				if exp < min {
					late = "early"
					ex.Violations = append(ex.Violations, sched.Viol{Sig: "expiry-too-early-after-lock-wait", What: fmt.Sprintf("client %s: stored expiry %d is %d s earlier than the end of the lease promised by the reply that left at virtual time %d (+%v lease); %d lock waits of %v each", m, exp, promised[m].Unix()-exp, promised[m].Add(-lt).Unix(), lt, run.Waits, waitCost)})
				}
				out += " " + m + "=" + late
			}
			ex.Outcome = out
			return ex
		}
	}}
}

func runContention(r *ev.Run) {
	if os.Getenv("VERIF_SCHED") != "1" {
		r.Capped("lock-contention expiry scenarios skipped: binary not built with the instrumentation overlay")
		return
	}
	bound, budget := 1, 60*time.Second
	if !r.Quick() {
		bound, budget = 2, 5*time.Minute
	}
	for _, cs := range contentionScenarios(!r.Quick()) {
		b := bound
		if len(cs.Threads) > 2 && b > 1 {
			b-- // one more thread: the bound that completes within the budget is one lower
		}
		res := sched.Explore(cs.scenario(r), b, budget)
		waited := false
		for o := range res.Outcomes {
			if !strings.HasPrefix(o, "waits=0") {
				waited = true
			}
		}
		if !waited && len(res.Found) == 0 {
			// (a tree in which requests never wait for each other is C16's business; here the
			// scenario simply has nothing to say)
			r.Capped(res.Scenario + ": no schedule made a request wait for a lock; the expiry-under-contention clause was not exercised")
		}
		alloc.ReportSched(r, "C03", res, map[string]interface{}{"pre": cs.Pre, "threads": cs.Threads, "virtual_wait_cost": waitCost.String()})
	}
}

// Crash explores the request/restart/aging/read-only graphs for property id (C01): only
// crashes (panic, mutex left held, non-termination through the operation watchdog) are
// verdicts; the search is cut at budget.
func Crash(r *ev.Run, id string, budget time.Duration, small bool) {
	dl := time.Now().Add(budget)
	cs := confs(false)
	if small {
		cs = cs[:1] // the 2-address range only
	}
	for _, c := range cs {
		c := c
		res := explore.Explore(r, explore.Config[Op]{
			Name:      fmt.Sprintf("range %s-%s", c.Start, c.End),
			New:       func() explore.Sys[Op] { return NewSys(r, id, c, false) },
			MaxStates: 50000,
			Deadline:  dl,
		})
		r.Sample("history-graph", map[string]interface{}{"plugin": "range", "config": c, "states": res.States, "transitions": res.Transitions, "depth": res.Depth, "fixpoint": res.Fixpoint})
	}
	// ... and requests carrying every other option code in seven payload shapes
	irrelevantOptions(r, id)
}
