// Package optplug: C17 (option plugins emit configured values to entitled clients) and
// C19 (an accepted configuration cannot crash or corrupt replies). Engine E3, strictly one
// worker process per (plugin, protocol, argument vector): plugins keep their configuration
// in package globals (dns/router even append on every Setup).
package optplug

import (
	"strconv"
	"bytes"
	"encoding/binary"
	"encoding/hex"
	"encoding/json"
	"fmt"
	"net"
	"net/url"
	"os"
	"path/filepath"
	"runtime/debug"
	"sort"
	"strings"
	"sync"
	"time"

	"github.com/coredhcp/coredhcp/config"
	"github.com/coredhcp/coredhcp/handler"
	"github.com/coredhcp/coredhcp/plugins"
	"github.com/coredhcp/coredhcp/plugins/autoconfigure"
	"github.com/coredhcp/coredhcp/plugins/dns"
	"github.com/coredhcp/coredhcp/plugins/file"
	"github.com/coredhcp/coredhcp/plugins/ipv6only"
	"github.com/coredhcp/coredhcp/plugins/leasetime"
	"github.com/coredhcp/coredhcp/plugins/mtu"
	"github.com/coredhcp/coredhcp/plugins/nbp"
	"github.com/coredhcp/coredhcp/plugins/netmask"
	"github.com/coredhcp/coredhcp/plugins/prefix"
	rangeplugin "github.com/coredhcp/coredhcp/plugins/range"
	"github.com/coredhcp/coredhcp/plugins/router"
	"github.com/coredhcp/coredhcp/plugins/searchdomains"
	"github.com/coredhcp/coredhcp/plugins/serverid"
	"github.com/coredhcp/coredhcp/plugins/sleep"
	"github.com/coredhcp/coredhcp/plugins/staticroute"
	"github.com/insomniacslk/dhcp/dhcpv4"
	"github.com/insomniacslk/dhcp/dhcpv6"
	"github.com/insomniacslk/dhcp/rfc1035label"

	"verifmc/checks/lease"
	"verifmc/checks/pd"
	"verifmc/ev"
	"verifmc/pkt"
	"verifmc/reg"
	"verifmc/srv"
)

func init() {
	reg.Register(&reg.Check{ID: "C17", Level: "exploration", Run: func(r *ev.Run) { run(r, "C17") }, Replay: func(r *ev.Run, c json.RawMessage) { replay(r, "C17", c) }, Worker: func(a []string) int { return worker("C17", a) }})
	reg.Register(&reg.Check{ID: "C19", Level: "exploration", Run: func(r *ev.Run) { run(r, "C19") }, Replay: func(r *ev.Run, c json.RawMessage) { replay(r, "C19", c) }, Worker: func(a []string) int { return worker("C19", a) }})
}

// Plugins is the table of built-in plugins by configuration name.
var Plugins = map[string]*plugins.Plugin{
	"dns": &dns.Plugin, "mtu": &mtu.Plugin, "netmask": &netmask.Plugin, "router": &router.Plugin,
	"searchdomains": &searchdomains.Plugin, "staticroute": &staticroute.Plugin, "lease_time": &leasetime.Plugin,
	"ipv6only": &ipv6only.Plugin, "autoconfigure": &autoconfigure.Plugin, "nbp": &nbp.Plugin, "sleep": &sleep.Plugin,
	"server_id": &serverid.Plugin, "file": &file.Plugin, "range": &rangeplugin.Plugin, "prefix": &prefix.Plugin,
}

// Vec is one configuration: plugin, protocol, argument vector.
type Vec struct {
	Plugin string   `json:"plugin"`
	Proto  int      `json:"proto"` // 4, 6, or 46 = configured under server6 AND server4 (dual stack)
	Args   []string `json:"args"`
	Args4  []string `json:"args_server4,omitempty"` // Proto 46: arguments under server4 (Args = server6)
}

// Case identifies one failing request under one configuration.
type Case struct {
	Vec Vec    `json:"config"`
	Req string `json:"request_hex,omitempty"`
	Pre string `json:"response_stub,omitempty"`
}

// ---------------------------------------------------------------- request battery (v4)

type req4 struct {
	bytes []byte
	desc  string
	yi    bool // response stub has yiaddr assigned
	o51   bool // response stub already carries a lease time
	ack   bool
}

func prlVariants(codes []byte) (out [][]byte, names []string) {
	out = append(out, nil) // absent
	names = append(names, "absent")
	out = append(out, []byte{}) // present but empty (malformed per RFC 2132: not asserted)
	names = append(names, "empty")
	const other = 42 // NTP servers, owned by no built-in plugin
	add := func(l []byte) { out = append(out, l); names = append(names, fmt.Sprint(l)) }
	add([]byte{other})
	// every subset of codes, in every order, alone and mixed with the unrelated code
	var perm func(rest, cur []byte)
	perm = func(rest, cur []byte) {
		if len(cur) > 0 {
			add(append([]byte{}, cur...))
			add(append([]byte{other}, cur...))
			add(append(append([]byte{}, cur...), other))
		}
		for i := range rest {
			nr := append(append([]byte{}, rest[:i]...), rest[i+1:]...)
			perm(nr, append(cur, rest[i]))
		}
	}
	perm(codes, nil)
	if len(codes) > 0 {
		add([]byte{codes[0], codes[0]}) // duplicate entry
	}
	return
}

func battery4(codes []byte) []req4 {
	var out []req4
	prls, names := prlVariants(codes)
	for pi, prl := range prls {
		for _, mt := range []byte{1, 3} {
			for _, o116 := range []bool{false, true} {
				p := pkt.V4{Op: 1, HType: 1, HLen: 6, Xid: 0x17171717, Flags: 0x8000}
				copy(p.CHAddr[:], []byte{2, 0, 0, 0x17, 0, 1})
				p.Opts = []pkt.Opt4{{Code: 53, Data: []byte{mt}}}
				if prl != nil {
					p.Opts = append(p.Opts, pkt.Opt4{Code: 55, Data: prl})
				}
				if o116 {
					p.Opts = append(p.Opts, pkt.Opt4{Code: 116, Data: []byte{1}})
				}
				for _, vc := range []string{"", "PXEClient:Arch:00007:UNDI:003016", "MSFT 5.0"} {
					q := p
					q.Opts = append([]pkt.Opt4{}, p.Opts...)
					if vc != "" {
						q.Opts = append(q.Opts, pkt.Opt4{Code: 60, Data: []byte(vc)}, pkt.Opt4{Code: 93, Data: []byte{0, 7}})
					}
					for _, yi := range []bool{false, true} {
						for _, o51 := range []bool{false, true} {
							out = append(out, req4{q.Bytes(), fmt.Sprintf("type=%d prl=%s opt116=%v class=%q yiaddr=%v opt51=%v", mt, names[pi], o116, vc, yi, o51), yi, o51, mt == 3})
						}
					}
				}
				if !o116 {
					// vendor class and client architecture independently of each other: a class
					// that announces an architecture without option 93, option 93 empty or of
					// odd length, classes of other boot loaders
					for _, vc := range []string{"PXEClient", "PXEClient:Arch:00007:UNDI:003016", "HTTPClient", "HTTPClient:Arch:00016:UNDI:003001", "MSFT 5.0", "x"} {
						for ai, arch := range [][]byte{nil, {}, {7}, {0, 16}, {0, 7, 0, 16}, {0, 7, 9}} {
							q := p
							q.Opts = append([]pkt.Opt4{}, p.Opts...)
							q.Opts = append(q.Opts, pkt.Opt4{Code: 60, Data: []byte(vc)})
							if arch != nil {
								q.Opts = append(q.Opts, pkt.Opt4{Code: 93, Data: arch})
							}
							out = append(out, req4{q.Bytes(), fmt.Sprintf("type=%d prl=%s class=%q arch-variant=%d", mt, names[pi], vc, ai), false, false, mt == 3})
						}
					}
				}
			}
		}
	}
	return out
}

// ---------------------------------------------------------------- reference (C17)

var ownCodes4 = map[string][]byte{
	"dns": {6}, "mtu": {26}, "netmask": {1}, "router": {3}, "searchdomains": {119}, "staticroute": {121},
	"lease_time": {51}, "ipv6only": {108}, "autoconfigure": {116}, "nbp": {66, 67}, "sleep": {},
}
var ownCodes6 = map[string][]uint16{"dns": {23}, "searchdomains": {24}, "nbp": {59, 60}, "sleep": {}}

func ips4(args []string) []byte {
	var b []byte
	for _, a := range args {
		b = append(b, net.ParseIP(a).To4()...)
	}
	return b
}

func encLabels(names []string) []byte {
	var b []byte
	for _, n := range names {
		for _, l := range strings.Split(strings.TrimSuffix(n, "."), ".") {
			if l == "" {
				continue
			}
			b = append(b, byte(len(l)))
			b = append(b, l...)
		}
		b = append(b, 0)
	}
	return b
}

// decLabels decodes RFC 1035 names (with compression pointers) from an option body.
func decLabels(b []byte) ([]string, error) {
	var out []string
	i := 0
	for i < len(b) {
		var parts []string
		j, jumped, hops := i, false, 0
		for {
			if j >= len(b) {
				return nil, fmt.Errorf("label runs past the option")
			}
			l := int(b[j])
			if l == 0 {
				j++
				break
			}
			if l&0xc0 == 0xc0 {
				if j+1 >= len(b) || hops > 16 {
					return nil, fmt.Errorf("bad pointer")
				}
				if !jumped {
					i = j + 2
				}
				j = (l&0x3f)<<8 | int(b[j+1])
				jumped = true
				hops++
				continue
			}
			if l > 63 || j+1+l > len(b) {
				return nil, fmt.Errorf("bad label length %d", l)
			}
			parts = append(parts, string(b[j+1:j+1+l]))
			j += 1 + l
		}
		if !jumped {
			i = j
		}
		out = append(out, strings.Join(parts, "."))
	}
	return out, nil
}

func encRoutes(args []string) []byte {
	var b []byte
	for _, a := range args {
		f := strings.Split(a, ",")
		_, n, _ := net.ParseCIDR(f[0])
		l, _ := n.Mask.Size()
		b = append(b, byte(l))
		b = append(b, n.IP.To4()[:(l+7)/8]...)
		b = append(b, net.ParseIP(f[1]).To4()...)
	}
	return b
}

func u32(d time.Duration) []byte {
	return binary.BigEndian.AppendUint32(nil, uint32(d/time.Second))
}

type expect4 struct {
	opts    map[byte][]byte // owned code -> expected value; missing = must be absent
	nilStop bool            // handler must return (nil, stop)
	stop    *bool           // if non-nil, the exact stop flag expected
	skip    bool            // statement silent for this request
}

// reference4 is written from the property text only.
func reference4(v Vec, rq req4, reqP pkt.V4) expect4 {
	e := expect4{opts: map[byte][]byte{}}
	prl, nprl := reqP.Get(55)
	listed := func(c byte) bool { return nprl > 0 && bytes.IndexByte(prl, c) >= 0 }
	wants := func(c byte) bool { return nprl == 0 || listed(c) }
	if nprl > 0 && len(prl) == 0 {
		e.skip = true // empty list: malformed, not asserted
	}
	a := v.Args
	switch v.Plugin {
	case "netmask":
		e.opts[1] = net.ParseIP(a[0]).To4()
	case "router":
		e.opts[3] = ips4(a)
	case "searchdomains":
		e.opts[119] = encLabels(a) // compared after decoding, see check
	case "staticroute":
		e.opts[121] = encRoutes(a)
	case "dns":
		if wants(6) {
			e.opts[6] = ips4(a)
		}
	case "mtu":
		if wants(26) {
			m, _ := strconv.Atoi(a[0]) // an MTU is a decimal number, leading zeros or not
			e.opts[26] = []byte{byte(m >> 8), byte(m)}
		}
	case "nbp":
		u, _ := url.Parse(a[0])
		switch u.Scheme {
		case "http", "https", "ftp":
			if wants(67) {
				e.opts[67] = []byte(u.String())
			}
		default:
			if wants(66) {
				e.opts[66] = []byte(u.Host)
			}
			if wants(67) {
				e.opts[67] = []byte(u.Path)
			}
		}
	case "lease_time":
		d, _ := time.ParseDuration(a[0])
		if rq.o51 {
			e.opts[51] = u32(7777 * time.Second) // the value already there stays
		} else {
			e.opts[51] = u32(d)
		}
	case "ipv6only":
		var d time.Duration
		if len(a) > 0 {
			d, _ = time.ParseDuration(a[0])
		}
		st := listed(108)
		e.stop = &st
		if st {
			e.opts[108] = u32(d)
		}
	case "autoconfigure":
		val := byte(0)
		if len(a) > 0 && (a[0] == "1" || a[0] == "AutoConfigure") {
			val = 1
		}
		_, sent := reqP.Get(116)
		if !rq.ack && !rq.yi { // address-less OFFER
			if sent > 0 {
				e.opts[116] = []byte{val}
			} else {
				e.nilStop = true
			}
		}
	case "sleep":
	}
	return e
}

// ---------------------------------------------------------------- worker

func mkResp4(req *dhcpv4.DHCPv4, rq req4) *dhcpv4.DHCPv4 {
	resp, err := dhcpv4.NewReplyFromRequest(req)
	if err != nil {
		panic(err)
	}
	if rq.ack {
		resp.UpdateOption(dhcpv4.OptMessageType(dhcpv4.MessageTypeAck))
	} else {
		resp.UpdateOption(dhcpv4.OptMessageType(dhcpv4.MessageTypeOffer))
	}
	if rq.yi {
		resp.YourIPAddr = net.IPv4(10, 0, 0, 99).To4()
	}
	if rq.o51 {
		resp.UpdateOption(dhcpv4.OptIPAddressLeaseTime(7777 * time.Second))
	}
	return resp
}

func worker(id string, args []string) int {
	r := ev.New(id, reg.Tier, "exploration")
	var v Vec
	if err := json.Unmarshal([]byte(args[0]), &v); err != nil {
		panic(err)
	}
	if v.Plugin == stateGraph {
		// the two built-in plugins with state: their request/renewal/aging graphs (as in C02 and
		// C08) explored within a time budget for panics of an accepted configuration
		budget := 60 * time.Second
		if reg.Tier == "thorough" {
			budget = 3 * time.Minute // (the worker itself is given 5 minutes)
		}
		if v.Proto == 4 {
			lease.Crash(r, id, budget, reg.Tier != "thorough")
		} else {
			pd.Crash(r, id, budget, reg.Tier != "thorough")
		}
		return reg.WorkerExit(r)
	}
	if v.Plugin == loaderChain {
		runLoaderChain(r, id, v)
		return reg.WorkerExit(r)
	}
	if v.Plugin == "range" && len(v.Args) == 1 && v.Args[0] == roHistories {
		lease.ReadOnlyDB(r, id, 2)
		return reg.WorkerExit(r)
	}
	runVec(r, id, v)
	return reg.WorkerExit(r)
}

// stateGraph marks the C19 vectors that explore the state graphs of range (Proto 4) and prefix
// (Proto 6).
const stateGraph = "@state-graph-of-the-lease-plugin"

// loaderChain marks a C19 configuration that is a list of built-in plugins (Args = their names)
// in ONE section, loaded through the real plugins.LoadPlugins - including plugins that have no
// set-up function for that protocol (skipped with a warning by the loader) and are followed by
// others. Each plugin gets valid arguments (of its own family if it has none for this one).
const loaderChain = "@chain-through-LoadPlugins"

func runLoaderChain(r *ev.Run, id string, v Vec) {
	registerBuiltins()
	a4, a6 := ValidArgs(srv.Scratch())
	a4["server_id"], a6["server_id"] = []string{"10.10.10.1"}, []string{"LL", "00:de:ad:be:ef:00"}
	var pcs []config.PluginConfig
	for _, n := range v.Args {
		own, other := a4, a6
		if v.Proto == 6 {
			own, other = a6, a4
		}
		args, ok := own[n]
		if !ok {
			args = other[n]
		}
		pcs = append(pcs, config.PluginConfig{Name: n, Args: args})
	}
	conf := &config.Config{}
	if v.Proto == 4 {
		conf.Server4 = &config.ServerConfig{Plugins: pcs}
	} else {
		conf.Server6 = &config.ServerConfig{Plugins: pcs}
	}
	var hs4 []handler.Handler4
	var hs6 []handler.Handler6
	var err error
	pan := func() (p string) {
		defer func() {
			if e := recover(); e != nil {
				p = fmt.Sprint(e)
			}
		}()
		hs4, hs6, err = plugins.LoadPlugins(conf)
		return ""
	}()
	class := fmt.Sprintf("loader-chain/v%d/len=%d", v.Proto, len(v.Args))
	if pan != "" {
		r.Violate(id+"/loader-chain/load-panic", fmt.Sprintf("LoadPlugins panicked on the chain %v (server%d): %s", v.Args, v.Proto, pan), Case{Vec: v})
		return
	}
	if err != nil {
		r.Eval(class + "/rejected")
		return
	}
	r.Eval(class + "/accepted")
	if v.Proto == 4 {
		for _, rq := range battery4(nil) {
			out := srv.Run4(net.Interface{}, hs4, rq.bytes, 1, &net.UDPAddr{IP: net.IPv4(10, 9, 9, 9), Port: 68})
			if out.Panic != "" {
				r.Violate(id+"/loader-chain/handler-panic", fmt.Sprintf("server4 plugins %v accepted by the loader (%d handlers), then handling a request panicked: %s", v.Args, len(hs4), firstLine(out.Panic)), Case{v, hex.EncodeToString(rq.bytes), rq.desc})
				return
			}
			for _, s := range out.Sent {
				if _, perr := dhcpv4.FromBytes(s.Data); perr != nil {
					r.Violate(id+"/loader-chain/reply-unparseable", fmt.Sprintf("server4 plugins %v: reply does not parse: %v", v.Args, perr), Case{v, hex.EncodeToString(rq.bytes), rq.desc})
				}
			}
		}
		return
	}
	for _, rq := range battery6(nil) {
		out := srv.Run6(net.Interface{}, hs6, rq.bytes, 1, &net.UDPAddr{IP: net.ParseIP("2001:db8::99"), Port: 546})
		if out.Panic != "" {
			r.Violate(id+"/loader-chain/handler-panic", fmt.Sprintf("server6 plugins %v accepted by the loader (%d handlers), then handling a request panicked: %s", v.Args, len(hs6), firstLine(out.Panic)), Case{v, hex.EncodeToString(rq.bytes), rq.desc})
			return
		}
		for _, s := range out.Sent {
			if _, perr := dhcpv6.FromBytes(s.Data); perr != nil {
				r.Violate(id+"/loader-chain/reply-unparseable", fmt.Sprintf("server6 plugins %v: reply does not parse: %v", v.Args, perr), Case{v, hex.EncodeToString(rq.bytes), rq.desc})
			}
		}
	}
}

// roHistories marks the stateful C19 scenario: the range plugin restarted on a lease database
// that has become read-only (accepted at start-up), then driven with request histories.
const roHistories = "@histories-on-a-read-only-lease-database"

func argClass(v Vec) string {
	return fmt.Sprintf("%s/v%d/arity=%d", v.Plugin, v.Proto, len(v.Args)+len(v.Args4))
}

func runVec(r *ev.Run, id string, v Vec) {
	p := Plugins[v.Plugin]
	defer func() {
		if e := recover(); e != nil {
			r.Violate(id+"/"+v.Plugin+"/setup-panic", fmt.Sprintf("Setup%d(%q) panicked: %v", v.Proto, v.Args, e), Case{Vec: v})
		}
	}()
	if v.Proto == 46 {
		// dual stack, through the real loader (DHCPv6 section first, then DHCPv4)
		registerBuiltins()
		conf := &config.Config{
			Server6: &config.ServerConfig{Plugins: []config.PluginConfig{{Name: v.Plugin, Args: v.Args}}},
			Server4: &config.ServerConfig{Plugins: []config.PluginConfig{{Name: v.Plugin, Args: v.Args4}}},
		}
		hs4, hs6, err := plugins.LoadPlugins(conf)
		if err != nil || len(hs4) != 1 || len(hs6) != 1 {
			r.Eval(argClass(v) + "/rejected")
			return
		}
		r.Eval(argClass(v) + "/accepted")
		r.Sample(argClass(v)+"/accepted", v)
		run6(r, id, Vec{Plugin: v.Plugin, Proto: 6, Args: v.Args}, hs6[0])
		run4(r, id, Vec{Plugin: v.Plugin, Proto: 4, Args: v.Args4}, hs4[0])
		return
	}
	if v.Proto == 4 {
		if p.Setup4 == nil {
			return
		}
		h, err := p.Setup4(v.Args...)
		if err != nil {
			r.Eval(argClass(v) + "/rejected")
			return
		}
		if h == nil {
			r.Eval(argClass(v) + "/nil-handler")
			return
		}
		r.Eval(argClass(v) + "/accepted")
		r.Sample(argClass(v)+"/accepted", v)
		run4(r, id, v, h)
	} else {
		if p.Setup6 == nil {
			return
		}
		h, err := p.Setup6(v.Args...)
		if err != nil {
			r.Eval(argClass(v) + "/rejected")
			return
		}
		if h == nil {
			r.Eval(argClass(v) + "/nil-handler")
			return
		}
		r.Eval(argClass(v) + "/accepted")
		r.Sample(argClass(v)+"/accepted", v)
		run6(r, id, v, h)
	}
}

// typed4 re-parses an option the way a client library would; returns the re-encoding.
func typed4(code byte, d []byte) ([]byte, error) {
	switch code {
	case 1, 54:
		if len(d) != 4 {
			return nil, fmt.Errorf("length %d, want 4", len(d))
		}
		return d, nil
	case 3, 6:
		if len(d) == 0 || len(d)%4 != 0 {
			return nil, fmt.Errorf("length %d is not a positive multiple of 4", len(d))
		}
		return d, nil
	case 26:
		if len(d) != 2 {
			return nil, fmt.Errorf("length %d, want 2", len(d))
		}
		return d, nil
	case 51, 108:
		if len(d) != 4 {
			return nil, fmt.Errorf("length %d, want 4", len(d))
		}
		return d, nil
	case 116:
		if len(d) != 1 {
			return nil, fmt.Errorf("length %d, want 1", len(d))
		}
		return d, nil
	case 119:
		l, err := rfc1035label.FromBytes(d)
		if err != nil {
			return nil, err
		}
		if _, err := decLabels(d); err != nil {
			return nil, err
		}
		return l.ToBytes(), nil
	case 121:
		var rt dhcpv4.Routes
		if err := rt.FromBytes(d); err != nil {
			return nil, err
		}
		return rt.ToBytes(), nil
	}
	return d, nil
}

// irrelevant4: what an option plugin emits depends on its configuration and on whether the
// client asked for the option - not on any other option of the request. A base request (full
// parameter request list) is repeated with every other option code in three payload shapes;
// the plugin's own options in the reply must be what they were for the base request.
func irrelevant4(r *ev.Run, id string, v Vec, h handler.Handler4) {
	codes := ownCodes4[v.Plugin]
	if len(codes) == 0 || id != "C17" {
		return
	}
	prl := append([]byte{}, codes...)
	var preset *pkt.Opt4 // an option an EARLIER plugin of the chain has already put into the reply
	build := func(extra *pkt.Opt4, mt byte) []byte {
		p := pkt.V4{Op: 1, HType: 1, HLen: 6, Xid: 0x17171718, Flags: 0x8000}
		copy(p.CHAddr[:], []byte{2, 0, 0, 0x17, 0, 2})
		p.Opts = []pkt.Opt4{{Code: 53, Data: []byte{mt}}, {Code: 55, Data: prl}}
		if extra != nil {
			p.Opts = append(p.Opts, *extra)
		}
		return p.Bytes()
	}
	own := func(b []byte, mt byte) (string, string) {
		req, err := dhcpv4.FromBytes(b)
		if err != nil {
			return "", "unparseable"
		}
		resp := mkResp4(req, req4{ack: mt == 3})
		if preset != nil {
			resp.UpdateOption(dhcpv4.OptGeneric(dhcpv4.GenericOptionCode(preset.Code), preset.Data))
		}
		pan := ""
		var out *dhcpv4.DHCPv4
		func() {
			defer func() {
				if e := recover(); e != nil {
					pan = fmt.Sprint(e)
				}
			}()
			out, _ = h(req, resp)
		}()
		if pan != "" || out == nil {
			return "", "no-reply:" + pan
		}
		w, err := pkt.ParseV4(out.ToBytes())
		if err != nil {
			return "", "reply-unparseable"
		}
		var sb strings.Builder
		for _, c := range codes {
			d, n := w.Get(c)
			fmt.Fprintf(&sb, "%d:%dx%x ", c, n, d)
		}
		return sb.String(), ""
	}
	for _, mt := range []byte{1, 3} {
		base, berr := own(build(nil, mt), mt)
		if berr != "" {
			continue
		}
		// the request's own copy of the plugin's option is "another option of the request" too -
		// except where the property makes it the entitlement (autoconfigure answers option 116)
		skip := []byte{55}
		if v.Plugin == "autoconfigure" {
			skip = append(skip, 116)
		}
		for _, x := range pkt.Extra4(skip...) {
			x := x
			b := build(&x, mt)
			got, gerr := own(b, mt)
			if gerr == "unparseable" {
				continue
			}
			if gerr != "" || got != base {
				r.Violate(fmt.Sprintf("C17/%s/v4/depends-on-unrelated-request-option", v.Plugin), fmt.Sprintf("%s %q: with option %d (%x) added to the request the plugin's options in the reply are %q (%s); without it %q", v.Plugin, v.Args, x.Code, x.Data, got, gerr, base), Case{v, hex.EncodeToString(b), fmt.Sprintf("extra option %d", x.Code)})
				break
			}
		}
		r.Eval(v.Plugin + "/v4/irrelevant-request-options")
		// the interplay with other plugins: the client also asks for another option, and an
		// earlier plugin of the chain has already put that option into the reply - this
		// plugin still adds exactly its own
		for _, x := range pkt.Extra4(skip...) {
			x := x
			own1 := false
			for _, c := range codes {
				own1 = own1 || c == x.Code
			}
			if own1 || len(x.Data) != 4 {
				continue
			}
			prl = append(append([]byte{}, codes...), x.Code)
			preset = nil
			base2, berr2 := own(build(nil, mt), mt)
			preset = &x
			got, gerr := own(build(nil, mt), mt)
			preset = nil
			prl = append([]byte{}, codes...)
			if berr2 != "" {
				continue
			}
			if gerr != "" || got != base2 {
				r.Violate(fmt.Sprintf("C17/%s/v4/depends-on-other-plugins-option", v.Plugin), fmt.Sprintf("%s %q: when the client also asks for option %d and the reply already carries it (added by an earlier plugin), the plugin's own options in the reply are %q (%s); without that option in the reply %q", v.Plugin, v.Args, x.Code, got, gerr, base2), Case{v, hex.EncodeToString(build(nil, mt)), fmt.Sprintf("reply already carries option %d", x.Code)})
				break
			}
		}
		r.Eval(v.Plugin + "/v4/other-plugins-options")
	}
}

// anyOption4: for C19, every other option code in seven payload shapes is added to a DISCOVER
// and a REQUEST (full parameter request list): the handler of an accepted configuration must
// not panic on any of them, and what it returns must serialise.
func anyOption4(r *ev.Run, id string, v Vec, h handler.Handler4) {
	if id != "C19" {
		return
	}
	prl := append([]byte{1, 3, 6, 15}, ownCodes4[v.Plugin]...)
	for _, mt := range []byte{1, 3} {
		for _, x := range pkt.Extra4(55) {
			p := pkt.V4{Op: 1, HType: 1, HLen: 6, Xid: 0x19191919, Flags: 0x8000}
			copy(p.CHAddr[:], []byte{2, 0, 0, 0x19, 0, 1})
			p.Opts = []pkt.Opt4{{Code: 53, Data: []byte{mt}}, {Code: 55, Data: prl}, x}
			b := p.Bytes()
			req, err := dhcpv4.FromBytes(b)
			if err != nil {
				continue
			}
			resp := mkResp4(req, req4{ack: mt == 3})
			pan := func() (p string) {
				defer func() {
					if e := recover(); e != nil {
						p = fmt.Sprintf("%v\n%s", e, trim(debug.Stack()))
					}
				}()
				if out, _ := h(req, resp); out != nil {
					_ = out.ToBytes()
				}
				return ""
			}()
			if pan != "" {
				r.Violate("C19/"+v.Plugin+"/v4/handler-panic", fmt.Sprintf("%s %q accepted at setup, then the handler panicked on a request carrying option %d = %x: %s", v.Plugin, v.Args, x.Code, x.Data, firstLine(pan)), Case{v, hex.EncodeToString(b), fmt.Sprintf("extra option %d", x.Code)})
				return
			}
		}
	}
	r.Eval(v.Plugin + "/v4/any-request-option")
}

func run4(r *ev.Run, id string, v Vec, h handler.Handler4) {
	codes := ownCodes4[v.Plugin]
	defer irrelevant4(r, id, v, h)
	defer anyOption4(r, id, v, h)
	for _, rq := range battery4(codes) {
		c := Case{v, hex.EncodeToString(rq.bytes), rq.desc}
		req, err := dhcpv4.FromBytes(rq.bytes)
		if err != nil {
			panic(err)
		}
		resp := mkResp4(req, rq)
		before, _ := pkt.ParseV4(resp.ToBytes())
		var out *dhcpv4.DHCPv4
		var stop bool
		pan := func() (p string) {
			defer func() {
				if e := recover(); e != nil {
					p = fmt.Sprintf("%v\n%s", e, trim(debug.Stack()))
				}
			}()
			out, stop = h(req, resp)
			if out != nil {
				_ = out.ToBytes()
			}
			return ""
		}()
		class := fmt.Sprintf("%s/v4/%s", v.Plugin, rq.desc)
		if pan != "" {
			if id == "C19" {
				r.Violate("C19/"+v.Plugin+"/v4/handler-panic", fmt.Sprintf("%s %q accepted at setup, then the handler panicked on a request: %s", v.Plugin, v.Args, firstLine(pan)), c)
			}
			r.Eval(v.Plugin + "/v4/panic")
			return
		}
		if out == nil {
			if !stop && id == "C13" {
				r.Violate("C13/builtin-nil-without-stop/"+v.Plugin, "built-in handler returned a nil response without stop", c)
			}
			if id == "C13" {
				r.Eval(fmt.Sprintf("builtin/%s/v4/nil=true/stop=%v", v.Plugin, stop))
				continue
			}
			if id == "C17" {
				reqP, _ := pkt.ParseV4(rq.bytes)
				if e := reference4(v, rq, reqP); !e.nilStop && !e.skip {
					r.Violate("C17/"+v.Plugin+"/dropped", "request was dropped although the client is entitled to an answer ("+rq.desc+")", c)
				}
			}
			r.Eval(v.Plugin + "/v4/dropped")
			continue
		}
		if id == "C13" {
			r.Eval(fmt.Sprintf("builtin/%s/v4/nil=%v/stop=%v", v.Plugin, out == nil, stop))
			continue
		}
		wire := out.ToBytes()
		after, perr := pkt.ParseV4(wire)
		if id == "C19" {
			if perr != nil {
				r.Violate("C19/"+v.Plugin+"/v4/reply-unparseable", "reply does not parse: "+perr.Error(), c)
				continue
			}
			back, err := dhcpv4.FromBytes(wire)
			if err != nil {
				r.Violate("C19/"+v.Plugin+"/v4/reply-unparseable", "reply does not parse with the library: "+err.Error(), c)
				continue
			}
			if !bytes.Equal(back.ToBytes(), wire) {
				r.Violate("C19/"+v.Plugin+"/v4/roundtrip", "reply does not survive ToBytes->FromBytes->ToBytes", c)
			}
			for _, code := range codes {
				d, n := after.Get(code)
				if n == 0 {
					continue
				}
				re, err := typed4(code, d)
				if err != nil || !bytes.Equal(re, d) {
					r.Violate(fmt.Sprintf("C19/%s/v4/option%d-malformed", v.Plugin, code), fmt.Sprintf("%s %q accepted at setup but emits option %d = %x which does not parse back to the same value (%v)", v.Plugin, v.Args, code, d, err), c)
				}
			}
			r.Eval(v.Plugin + "/v4/ok")
			continue
		}
		// C17
		reqP, _ := pkt.ParseV4(rq.bytes)
		e := reference4(v, rq, reqP)
		if e.skip {
			r.Eval(v.Plugin + "/v4/not-asserted")
			continue
		}
		if e.nilStop {
			r.Violate("C17/"+v.Plugin+"/answered-unentitled", "client not entitled to an answer was answered ("+rq.desc+")", c)
			continue
		}
		if e.stop != nil && *e.stop != stop {
			r.Violate(fmt.Sprintf("C17/%s/stop=%v", v.Plugin, stop), fmt.Sprintf("stop=%v, want %v (%s)", stop, *e.stop, rq.desc), c)
		}
		owned := map[byte]bool{}
		for _, code := range codes {
			owned[code] = true
			got, n := after.Get(code)
			want, has := e.opts[code]
			if v.Plugin == "autoconfigure" && !has {
				// untouched: whatever the stub had (nothing)
			}
			switch {
			case !has && n > 0 && !(code == 51 && rq.o51):
				r.Violate(fmt.Sprintf("C17/%s/option%d-to-unentitled", v.Plugin, code), fmt.Sprintf("option %d sent to a client not entitled to it (%s)", code, rq.desc), c)
			case has && n == 0:
				r.Violate(fmt.Sprintf("C17/%s/option%d-missing", v.Plugin, code), fmt.Sprintf("option %d missing (%s)", code, rq.desc), c)
			case has && n != 1 && !(len(want) > 255 && n == (len(want)+254)/255):
				// (a value longer than 255 octets is split over consecutive instances, RFC 3396)
				r.Violate(fmt.Sprintf("C17/%s/option%d-repeated", v.Plugin, code), fmt.Sprintf("option %d present %d times (%s)", code, n, rq.desc), c)
			case has:
				ok := bytes.Equal(got, want)
				if code == 119 {
					gn, err := decLabels(got)
					wn, _ := decLabels(want)
					ok = err == nil && fmt.Sprint(gn) == fmt.Sprint(wn)
				}
				if !ok {
					r.Violate(fmt.Sprintf("C17/%s/option%d-value", v.Plugin, code), fmt.Sprintf("option %d = %x, want %x for arguments %q (%s)", code, got, want, v.Args, rq.desc), c)
				}
			}
		}
		// nothing else may change
		if d := diffOpts(before, after, owned); d != "" {
			r.Violate("C17/"+v.Plugin+"/foreign-change", "plugin changed something it does not own: "+d, c)
		}
		r.Eval(class2(v.Plugin, e, stop))
		_ = class
	}
}

func class2(pl string, e expect4, stop bool) string {
	var ks []int
	for k := range e.opts {
		ks = append(ks, int(k))
	}
	sort.Ints(ks)
	return fmt.Sprintf("%s/v4/emits=%v/stop=%v", pl, ks, stop)
}

func diffOpts(a, b pkt.V4, owned map[byte]bool) string {
	if a.YI != b.YI || a.SI != b.SI || a.Xid != b.Xid || a.Op != b.Op || a.Flags != b.Flags {
		return "header fields"
	}
	seen := map[byte]bool{}
	for _, o := range append(append([]pkt.Opt4{}, a.Opts...), b.Opts...) {
		if owned[o.Code] || seen[o.Code] {
			continue
		}
		seen[o.Code] = true
		x, nx := a.Get(o.Code)
		y, ny := b.Get(o.Code)
		if nx != ny || !bytes.Equal(x, y) {
			return fmt.Sprintf("option %d: %x -> %x", o.Code, x, y)
		}
	}
	return ""
}

func trim(b []byte) string {
	if len(b) > 1500 {
		b = b[:1500]
	}
	return string(b)
}

func firstLine(s string) string {
	if i := strings.IndexByte(s, '\n'); i >= 0 {
		return s[:i]
	}
	return s
}

// ---------------------------------------------------------------- v6

type req6 struct {
	bytes []byte
	desc  string
	oro   []uint16
	hasO  bool
}

func battery6(codes []uint16) []req6 {
	var oros [][]uint16
	var present []bool
	oros, present = append(oros, nil), append(present, false)
	oros, present = append(oros, []uint16{}), append(present, true)
	add := func(l []uint16) { oros = append(oros, l); present = append(present, true) }
	add([]uint16{31})
	var perm func(rest, cur []uint16)
	perm = func(rest, cur []uint16) {
		if len(cur) > 0 {
			add(append([]uint16{}, cur...))
			add(append([]uint16{31}, cur...))
		}
		for i := range rest {
			nr := append(append([]uint16{}, rest[:i]...), rest[i+1:]...)
			perm(nr, append(cur, rest[i]))
		}
	}
	perm(codes, nil)
	var out []req6
	for i, oro := range oros {
		for _, mt := range []byte{1, 3} {
			for _, extra := range []string{"none", "iana", "iapd", "iapd-hint", "iapd-v4mapped-hint"} {
				for depth := 0; depth <= 1; depth++ {
					m := pkt.Msg6{Type: mt, Xid: [3]byte{0x17, 0, mt}}
					m.Opts = append(m.Opts, pkt.Opt6{Code: 1, Data: []byte{0, 3, 0, 1, 2, 0, 0, 0x17, 0, 1}})
					if mt == 3 {
						m.Opts = append(m.Opts, pkt.Opt6{Code: 2, Data: []byte{0, 3, 0, 1, 0, 0xde, 0xad, 0xbe, 0xef, 0}})
					}
					if present[i] {
						var b []byte
						for _, c := range oro {
							b = binary.BigEndian.AppendUint16(b, c)
						}
						m.Opts = append(m.Opts, pkt.Opt6{Code: 6, Data: b})
					}
					iapd := func(pfx []byte) pkt.Opt6 {
						d := []byte{0, 0, 0, 7, 0, 0, 0, 0, 0, 0, 0, 0}
						if pfx != nil {
							d = append(d, pkt.EncOpts6([]pkt.Opt6{{Code: 26, Data: pfx}})...)
						}
						return pkt.Opt6{Code: 25, Data: d}
					}
					switch extra {
					case "iana":
						m.Opts = append(m.Opts, pkt.Opt6{Code: 3, Data: []byte{0, 0, 0, 9, 0, 0, 0, 0, 0, 0, 0, 0}})
					case "iapd":
						m.Opts = append(m.Opts, iapd(nil))
					case "iapd-hint":
						p := append([]byte{0, 0, 0, 0, 0, 0, 0, 0, 64}, net.ParseIP("2001:db8:0:1::")...)
						m.Opts = append(m.Opts, iapd(p))
					case "iapd-v4mapped-hint":
						p := append([]byte{0, 0, 0, 0, 0, 0, 0, 0, 112}, net.ParseIP("::ffff:10.1.0.0").To16()...)
						m.Opts = append(m.Opts, iapd(p))
					}
					b := m.Bytes()
					if depth == 1 {
						l := pkt.Relay6{Type: 12, Inner: b}
						l.Link[0], l.Peer[0], l.Peer[1] = 0x20, 0xfe, 0x80
						l.After = []pkt.Opt6{{Code: 79, Data: []byte{0, 1, 2, 0, 0, 0x17, 0, 1}}}
						b = l.Bytes()
					}
					out = append(out, req6{b, fmt.Sprintf("type=%d oro=%v(present=%v) %s relay=%d", mt, oro, present[i], extra, depth), oro, present[i]})
				}
			}
		}
	}
	return out
}

func run6(r *ev.Run, id string, v Vec, h handler.Handler6) {
	codes := ownCodes6[v.Plugin]
	for _, rq := range battery6(codes) {
		c := Case{v, hex.EncodeToString(rq.bytes), rq.desc}
		req, err := dhcpv6.FromBytes(rq.bytes)
		if err != nil {
			panic(fmt.Sprintf("battery request does not parse: %v", err))
		}
		inner, _ := req.GetInnerMessage()
		var resp dhcpv6.DHCPv6
		if inner.MessageType == dhcpv6.MessageTypeSolicit {
			resp, err = dhcpv6.NewAdvertiseFromSolicit(inner)
		} else {
			resp, err = dhcpv6.NewReplyFromMessage(inner)
		}
		if err != nil {
			panic(err)
		}
		before := append([]byte{}, resp.ToBytes()...)
		var out dhcpv6.DHCPv6
		var stop bool
		pan := func() (p string) {
			defer func() {
				if e := recover(); e != nil {
					p = fmt.Sprintf("%v\n%s", e, trim(debug.Stack()))
				}
			}()
			out, stop = h(req, resp)
			if out != nil {
				_ = out.ToBytes()
			}
			return ""
		}()
		if pan != "" {
			if id == "C19" {
				r.Violate("C19/"+v.Plugin+"/v6/handler-panic", fmt.Sprintf("%s %q accepted at setup, then the handler panicked on a request: %s", v.Plugin, v.Args, firstLine(pan)), c)
			}
			r.Eval(v.Plugin + "/v6/panic")
			return
		}
		if out == nil {
			if !stop && id == "C13" {
				r.Violate("C13/builtin-nil-without-stop/"+v.Plugin, "built-in handler returned a nil response without stop", c)
			}
			if id == "C13" {
				r.Eval(fmt.Sprintf("builtin/%s/v6/nil=true/stop=%v", v.Plugin, stop))
				continue
			}
			r.Eval(v.Plugin + "/v6/dropped")
			continue
		}
		if id == "C13" {
			r.Eval(fmt.Sprintf("builtin/%s/v6/nil=false/stop=%v", v.Plugin, stop))
			continue
		}
		wire := out.ToBytes()
		if id == "C19" {
			back, err := dhcpv6.FromBytes(wire)
			if err != nil {
				r.Violate("C19/"+v.Plugin+"/v6/reply-unparseable", fmt.Sprintf("%s %q: reply does not parse back: %v", v.Plugin, v.Args, err), c)
				continue
			}
			if !bytes.Equal(back.ToBytes(), wire) {
				r.Violate("C19/"+v.Plugin+"/v6/roundtrip", fmt.Sprintf("%s %q: reply does not survive ToBytes->FromBytes->ToBytes", v.Plugin, v.Args), c)
			}
			r.Eval(v.Plugin + "/v6/ok")
			continue
		}
		// C17 reference
		after, perr := pkt.Parse6(wire)
		if perr != nil || after.Msg == nil {
			r.Violate("C17/"+v.Plugin+"/v6/reply-unparseable", fmt.Sprint(perr), c)
			continue
		}
		bef, _ := pkt.Parse6(before)
		listed := func(code uint16) bool {
			for _, x := range rq.oro {
				if x == code {
					return true
				}
			}
			return false
		}
		want := map[uint16][]byte{}
		switch v.Plugin {
		case "dns":
			if listed(23) {
				var b []byte
				for _, a := range v.Args {
					b = append(b, net.ParseIP(a).To16()...)
				}
				want[23] = b
			}
		case "searchdomains":
			want[24] = encLabels(v.Args)
		case "nbp":
			u, _ := url.Parse(v.Args[0])
			if listed(59) {
				want[59] = []byte(u.String())
			}
			if p := u.Query().Get("params"); p != "" && listed(60) {
				want[60] = nil // presence only: the statement does not fix the parameter encoding
			}
		}
		emits := []int{}
		for _, code := range codes {
			got, n := pkt.Get6(after.Msg.Opts, code)
			w, has := want[code]
			switch {
			case !has && n > 0:
				r.Violate(fmt.Sprintf("C17/%s/v6/option%d-to-unentitled", v.Plugin, code), fmt.Sprintf("option %d sent although not requested / not configured (%s)", code, rq.desc), c)
			case has && n == 0:
				r.Violate(fmt.Sprintf("C17/%s/v6/option%d-missing", v.Plugin, code), fmt.Sprintf("option %d missing (%s)", code, rq.desc), c)
			case has && n != 1:
				r.Violate(fmt.Sprintf("C17/%s/v6/option%d-repeated", v.Plugin, code), fmt.Sprintf("option %d present %d times (%s)", code, n, rq.desc), c)
			case has && w != nil:
				ok := bytes.Equal(got, w)
				if code == 24 {
					gn, err := decLabels(got)
					wn, _ := decLabels(w)
					ok = err == nil && fmt.Sprint(gn) == fmt.Sprint(wn)
				}
				if !ok {
					r.Violate(fmt.Sprintf("C17/%s/v6/option%d-value", v.Plugin, code), fmt.Sprintf("option %d = %x, want %x for arguments %q", code, got, w, v.Args), c)
				}
			}
			if has {
				emits = append(emits, int(code))
			}
		}
		// foreign options unchanged
		for _, o := range bef.Msg.Opts {
			g, n := pkt.Get6(after.Msg.Opts, o.Code)
			if n != 1 || !bytes.Equal(g, o.Data) {
				r.Violate("C17/"+v.Plugin+"/v6/foreign-change", fmt.Sprintf("plugin changed option %d it does not own", o.Code), c)
			}
		}
		r.Eval(fmt.Sprintf("%s/v6/emits=%v/stop=%v", v.Plugin, emits, stop))
	}
}

// ---------------------------------------------------------------- driver

func spawnAll(r *ev.Run, id string, vecs []Vec) {
	var wg sync.WaitGroup
	sem := make(chan struct{}, 16)
	for _, v := range vecs {
		v := v
		wg.Add(1)
		sem <- struct{}{}
		go func() {
			defer wg.Done()
			defer func() { <-sem }()
			b, _ := json.Marshal(v)
			res := reg.Spawn(r, id, 5*time.Minute, string(b))
			if res.Died || res.Hung {
				what := "died"
				if res.Hung {
					what = "hung (one configuration normally takes well under a second; killed after 5 min, twice)"
				}
				// confirm alone before reporting
				res2 := reg.Spawn(ev.New(id, r.Tier, "exploration"), id, 5*time.Minute, string(b))
				if res2.Died || res2.Hung {
					r.Violate(id+"/"+v.Plugin+"/process-"+strings.Fields(what)[0], fmt.Sprintf("worker for %s v%d %q %s: %s", v.Plugin, v.Proto, v.Args, what, lastLines(res2.Output)), Case{Vec: v})
				}
			}
			r.Add("configurations", 1)
		}()
	}
	wg.Wait()
}

func lastLines(s string) string {
	l := strings.Split(strings.TrimSpace(s), "\n")
	if len(l) > 6 {
		l = l[len(l)-6:]
	}
	return strings.Join(l, " | ")
}

func run(r *ev.Run, id string) {
	scratch := srv.Scratch()
	var vecs []Vec
	if id == "C17" {
		r.Rule("E3, one process per (plugin, protocol, accepted argument vector): every request of the battery = PRL/ORO {absent, empty, unrelated, every subset of the plugin's codes in every order alone and mixed with an unrelated code, duplicate} x {DISCOVER/OFFER, REQUEST/ACK} x yiaddr {unset,set} x lease time already present x option 116 present (v4); {SOLICIT, REQUEST} x ORO variants x {IA_NA, IA_PD...} x relay depth 0..1 (v6). Reference: independent encoders (RFC 2132/3442/3397/8925/2563, 3646/5970) + the entitlement rules of the property. Class = plugin/proto/emitted codes/stop.")
		r.Assume("an empty parameter request list (malformed per RFC 2132) is enumerated but not asserted; the DHCPv6 boot-file parameter encoding is checked for presence only")
		vecs = validVectors(!r.Quick())
	} else {
		r.Rule("E3, one process per (plugin, protocol, argument vector): vectors of arity 0..2 (thorough 0..3) over per-plugin atom alphabets (valid, boundary and invalid values of each argument kind, foreign kinds) for all 15 built-in plugins; accepted configurations are driven with the C17 request battery (+IA_PD hints incl. v4-mapped for DHCPv6). Oracle: Setup errs, or no panic and reply == FromBytes(ToBytes(reply)) re-encoded, and every option the plugin wrote re-parses to the same bytes with a typed parser. Class = plugin/proto/arity/accepted|rejected + outcomes.")
		r.Assume("sleep durations limited to <= 1ms; pool orders <= 16")
		vecs = c19Vectors(scratch, !r.Quick())
		r.Rule("plus, for the range plugin (the one built-in with persistent state): every history of <= 2 requests (3 clients, DISCOVER/REQUEST), a restart on the lease database opened read-only (environment fault; a start-up error is accepted), then every history of <= 2 further requests; oracle: no panic.")
		vecs = append(vecs, Vec{Plugin: "range", Proto: 4, Args: []string{roHistories}})
		r.Rule("plus the state graphs of range and prefix (requests with every hint / hardware-address shape, restarts, aging by hours and days) explored breadth-first within a time budget: no panic of an accepted configuration on any history.")
		vecs = append(vecs, Vec{Plugin: stateGraph, Proto: 4}, Vec{Plugin: stateGraph, Proto: 6})
		r.Rule("plus chains through the real loader: every ordered pair (thorough: every triple with server_id first) of the 15 built-in plugins in one section, for both protocols - plugins without a set-up function for that protocol are skipped by the loader and may be followed by others; each accepted chain is driven with the request battery through HandleMsg4/6: no panic, replies parse.")
		var names []string
		for n := range Plugins {
			names = append(names, n)
		}
		sort.Strings(names)
		for _, proto := range []int{4, 6} {
			for _, a := range names {
				for _, b := range names {
					if a != b {
						vecs = append(vecs, Vec{Plugin: loaderChain, Proto: proto, Args: []string{a, b}})
						if !r.Quick() && a != "server_id" && b != "server_id" {
							vecs = append(vecs, Vec{Plugin: loaderChain, Proto: proto, Args: []string{"server_id", a, b}})
						}
					}
				}
			}
		}
	}
	r.Set("vectors", int64(len(vecs)))
	spawnAll(r, id, vecs)
}

func replay(r *ev.Run, id string, raw json.RawMessage) {
	var c Case
	if err := json.Unmarshal(raw, &c); err != nil {
		r.Violate(id+"/replay/bad-file", err.Error(), nil)
		return
	}
	if c.Vec.Plugin == "" && strings.Contains(string(raw), `"history"`) {
		lease.Replay(r, id, raw)
		return
	}
	b, _ := json.Marshal(c.Vec)
	res := reg.Spawn(r, id, 5*time.Minute, string(b))
	if res.Died || res.Hung {
		r.Violate(id+"/"+c.Vec.Plugin+"/process-died", lastLines(res.Output), c)
	}
}

// validVectors: accepted argument vectors for C17.
func validVectors(thorough bool) []Vec {
	var out []Vec
	add := func(pl string, proto int, args ...string) {
		out = append(out, Vec{Plugin: pl, Proto: proto, Args: args})
	}
	for _, a := range [][]string{{"8.8.8.8"}, {"8.8.8.8", "1.1.1.1"}, {"10.0.0.1", "10.0.0.2", "255.255.255.255"}} {
		add("dns", 4, a...)
		add("router", 4, a...)
	}
	for _, a := range [][]string{{"2001:4860:4860::8888"}, {"2001:4860:4860::8888", "::1"}, {"fe80::1", "2001:db8::2", "ff02::fb"}} {
		add("dns", 6, a...)
	}
	for _, m := range []string{"68", "1500", "65535", "0", "576", "01500", "0576", "00068"} {
		add("mtu", 4, m)
	}
	for _, m := range []string{"255.255.255.0", "255.255.255.255", "128.0.0.0", "255.255.254.0", "255.255.255.252"} {
		add("netmask", 4, m)
	}
	for _, d := range []string{"0s", "1s", "3600s", "4294967295s", "1h30m", "90m"} {
		add("lease_time", 4, d)
		add("ipv6only", 4, d)
	}
	add("ipv6only", 4)
	for _, a := range [][]string{{}, {"0"}, {"1"}, {"DoNotAutoConfigure"}, {"AutoConfigure"}} {
		add("autoconfigure", 4, a...)
	}
	for _, a := range [][]string{{"example.com"}, {"example.com", "sub.example.org"}, {"a.b.c.d.e", "x", "example.net"}} {
		add("searchdomains", 4, a...)
		add("searchdomains", 6, a...)
	}
	// lists whose encoding is longer than one option instance can hold (255 octets)
	var many []string
	for i := 0; i < 14; i++ {
		many = append(many, fmt.Sprintf("department-%02d.example.org", i))
	}
	l63 := strings.Repeat("a", 63)
	for _, a := range [][]string{many, {l63 + "." + l63 + ".x", l63 + "." + strings.Repeat("b", 63) + ".y"}, many[:9], many[:10]} {
		add("searchdomains", 4, a...)
		add("searchdomains", 6, a...)
	}
	var manyDNS, manyRoutes []string
	for i := 0; i < 70; i++ {
		manyDNS = append(manyDNS, fmt.Sprintf("10.9.%d.1", i))
		manyRoutes = append(manyRoutes, fmt.Sprintf("10.%d.0.0/16,192.0.2.%d", i, i+1))
	}
	add("dns", 4, manyDNS...)
	add("router", 4, manyDNS...)
	add("staticroute", 4, manyRoutes...)
	for _, a := range [][]string{{"10.0.0.0/8,192.0.2.1"}, {"0.0.0.0/0,192.0.2.1"}, {"128.0.0.0/1,10.0.0.1", "10.20.0.0/25,10.0.0.2"}, {"192.0.2.7/32,10.0.0.3", "10.0.0.0/8,10.0.0.1", "172.16.0.0/12,10.0.0.9"}} {
		add("staticroute", 4, a...)
	}
	// destinations written with host bits set: option 121 carries the NETWORK (RFC 3442)
	for _, a := range [][]string{{"10.0.5.0/20,10.0.0.1"}, {"192.168.1.77/25,192.168.1.1", "172.16.5.4/12,10.0.0.2"}, {"10.255.255.255/9,10.0.0.1", "1.2.3.4/31,1.2.3.5", "203.0.113.9/1,10.0.0.3"}} {
		add("staticroute", 4, a...)
	}
	for _, u := range []string{"tftp://10.0.0.1/boot/pxe.0", "http://boot.example.com/ipxe.efi", "https://boot.example.com/x?params=a%3Db", "ftp://10.0.0.1/f", "tftp://[2001:db8::1]/y", "http://[2001:db8::1]/boot.efi?params=quiet"} {
		add("nbp", 4, u)
		add("nbp", 6, u)
	}
	add("sleep", 4, "0s")
	add("sleep", 6, "1ms")
	if thorough {
		// every valid netmask, every route prefix length, more servers, more MTUs, long labels
		for l := 1; l <= 32; l++ {
			m := net.CIDRMask(l, 32)
			add("netmask", 4, net.IP(m).String())
		}
		var routes []string
		for l := 0; l <= 32; l++ {
			ip := net.IP{203, 0, 113, 255}.Mask(net.CIDRMask(l, 32))
			routes = append(routes, fmt.Sprintf("%s/%d,192.0.2.%d", ip, l, l+1))
			add("staticroute", 4, routes[len(routes)-1])
		}
		add("staticroute", 4, routes[:11]...)
		add("staticroute", 4, routes[11:22]...)
		add("staticroute", 4, routes[22:]...)
		for n := 4; n <= 10; n++ {
			var a4, a6 []string
			for i := 0; i < n; i++ {
				a4 = append(a4, fmt.Sprintf("10.%d.%d.%d", i, 255-i, i*25))
				a6 = append(a6, fmt.Sprintf("2001:db8:%x::%x", i, 0xffff-i))
			}
			add("dns", 4, a4...)
			add("router", 4, a4...)
			add("dns", 6, a6...)
		}
		for _, m := range []string{"1", "255", "256", "1280", "9000", "32767", "32768", "65534"} {
			add("mtu", 4, m)
		}
		for _, d := range []string{"1m", "24h", "168h", "1193046h", "59s", "61s"} {
			add("lease_time", 4, d)
			add("ipv6only", 4, d)
		}
		l63 := strings.Repeat("a", 63)
		for _, a := range [][]string{{l63 + ".example"}, {l63 + "." + l63 + "." + l63 + ".ab"}, {"a", "b", "c", "d", "e", "f", "g", "h"}, {"xn--nxasmq6b.example", "UPPER.Example.COM"}} {
			add("searchdomains", 4, a...)
			add("searchdomains", 6, a...)
		}
		for _, u := range []string{"tftp://boot.example/", "tftp://10.0.0.1", "http://h/" + strings.Repeat("p", 200), "https://user:pw@h:8443/x?params=a%20b&other=1", "tftp://10.0.0.1:6969/a/b/c.d"} {
			add("nbp", 4, u)
			add("nbp", 6, u)
		}
	}
	// dual stack: the same plugin under server6 and server4 with DIFFERENT values; each
	// family must emit its own configuration
	out = append(out,
		Vec{Plugin: "dns", Proto: 46, Args: []string{"2001:db8::53", "2001:db8::54"}, Args4: []string{"192.0.2.53"}},
		Vec{Plugin: "searchdomains", Proto: 46, Args: []string{"v6.example.org", "lab6.example.org"}, Args4: []string{"v4.example.com"}},
		Vec{Plugin: "nbp", Proto: 46, Args: []string{"http://[2001:db8::1]/six.efi?params=six"}, Args4: []string{"tftp://192.0.2.9/four.0"}},
		Vec{Plugin: "sleep", Proto: 46, Args: []string{"0s"}, Args4: []string{"1ms"}},
	)
	return out
}

// c19Vectors: argument vectors of arity 0..2/3 per plugin over mixed atom alphabets.
func c19Vectors(scratch string, thorough bool) []Vec {
	good4 := filepath.Join(scratch, "leases4.txt")
	good6 := filepath.Join(scratch, "leases6.txt")
	bad := filepath.Join(scratch, "leases-bad.txt")
	os.WriteFile(good4, []byte("02:00:00:17:00:01 10.0.0.77\n"), 0o644)
	os.WriteFile(good6, []byte("02:00:00:17:00:01 2001:db8::77\n"), 0o644)
	os.WriteFile(bad, []byte("zz 10.0.0.1\n"), 0o644)
	long63 := strings.Repeat("a", 63) + ".example"
	long64 := strings.Repeat("b", 64) + ".example"
	long200 := strings.Repeat("c", 200)
	long300 := strings.Repeat("d.", 150) + "e"
	addr := []string{"10.0.0.1", "2001:db8::1", "::ffff:10.0.0.2", "0.0.0.0", "255.255.255.255", "::", "bogus", ""}
	atoms := map[string][]string{
		"dns":           addr,
		"router":        addr,
		"netmask":       {"255.255.255.0", "255.0.255.0", "0.0.0.0", "255.255.255.255", "ffff:ff00::", "::ffff:255.255.0.0", "bogus", "24"},
		"mtu":           {"-1", "0", "68", "1500", "65535", "65536", "2147483648", "9999999999999999999", "abc", "1500.5"},
		"lease_time":    {"3600s", "0s", "-5s", "2562047h", "4294967296s", "1.5h", "abc", "10"},
		"ipv6only":      {"3600s", "0s", "-5s", "2562047h", "4294967296s", "abc"},
		"autoconfigure": {"0", "1", "2", "AutoConfigure", "DoNotAutoConfigure", "autoconfigure", ""},
		"searchdomains": {"example.com", long63, long64, long200, long300, "", ".", "a..b", "exa mple", "\xff\xfe.com",
			// labels counted in characters are not labels counted in octets
			strings.Repeat("\u00e9", 31) + ".example", strings.Repeat("\u00fc", 40) + ".example", strings.Repeat("\U0001F600", 50) + ".x", strings.Repeat("\U0001F600", 15) + "." + strings.Repeat("\u4e2d", 21) + ".example"},
		"staticroute": {"10.0.0.0/8,192.0.2.1", "0.0.0.0/0,10.0.0.1", "2001:db8::/32,2001:db8::1", "10.0.0.0/8,2001:db8::1", "2001:db8::/32,10.0.0.1",
			"::ffff:10.0.0.0/104,10.0.0.1", "10.0.0.0/8,::ffff:10.0.0.1", "10.0.0.0/33,10.0.0.1", "10.0.0.0/8", "10.0.0.0/8,10.0.0.1,extra", "10.0.0.5/8,10.0.0.1", ",", ""},
		"nbp":       {"tftp://10.0.0.1/boot", "http://h/f?params=a%3Db", "https://h/" + long300, "ftp://h", "file:///x", "//nohost", "tftp://", "%zz", "", "http://h/f?params=", "tftp://" + long300 + "/x"},
		"sleep":     {"0s", "1ms", "-1s", "abc", ""},
		"server_id": {"10.0.0.1", "2001:db8::1", "::ffff:10.0.0.1", "LL", "llt", "en", "uuid", "00:11:22:33:44:55", "00:11:22:33:44:55:66:77", "0011.2233.4455", "bogus", ""},
		"file":      {good4, good6, bad, filepath.Join(scratch, "missing.txt"), scratch, "", "autorefresh", "foo"},
		"prefix":    {"2001:db8::/48", "2001:db8::/60", "10.0.0.0/8", "::ffff:10.0.0.0/104", "::/0", "2001:db8::1/64", "bogus", "64", "56", "16", "8", "112", "128", "129", "-1", "0", "abc", "100",
			// long pools, for which a delegation length beyond 128 is "only a few bits more"
			"2001:db8:0:1::ff00/120", "2001:db8::1/128", "130", "255", "256"},
	}
	var out []Vec
	maxAr := 2
	if thorough {
		maxAr = 3
	}
	names := make([]string, 0, len(atoms))
	for k := range atoms {
		names = append(names, k)
	}
	sort.Strings(names)
	for _, pl := range names {
		at := atoms[pl]
		ar := maxAr
		if pl == "prefix" || pl == "server_id" {
			ar = 2
		}
		var rec func(cur []string)
		rec = func(cur []string) {
			for _, proto := range []int{4, 6} {
				if (proto == 4 && Plugins[pl].Setup4 == nil) || (proto == 6 && Plugins[pl].Setup6 == nil) {
					continue
				}
				if pl == "prefix" && len(cur) == 2 && !prefixOK(cur) {
					continue
				}
				out = append(out, Vec{Plugin: pl, Proto: proto, Args: append([]string{}, cur...)})
			}
			if len(cur) == ar {
				return
			}
			for _, a := range at {
				rec(append(cur, a))
			}
		}
		rec(nil)
	}
	// dual-stack configurations through the real loader
	out = append(out,
		Vec{Plugin: "file", Proto: 46, Args: []string{good6}, Args4: []string{good4}},
		Vec{Plugin: "file", Proto: 46, Args: []string{good6, "autorefresh"}, Args4: []string{good4, "autorefresh"}},
		Vec{Plugin: "dns", Proto: 46, Args: []string{"2001:db8::53"}, Args4: []string{"192.0.2.53"}},
		Vec{Plugin: "searchdomains", Proto: 46, Args: []string{"v6.example.org"}, Args4: []string{"v4.example.com"}},
		Vec{Plugin: "nbp", Proto: 46, Args: []string{"http://[2001:db8::1]/six.efi?params=six"}, Args4: []string{"tftp://192.0.2.9/four.0"}},
		Vec{Plugin: "server_id", Proto: 46, Args: []string{"LL", "00:de:ad:be:ef:00"}, Args4: []string{"192.0.2.1"}},
		Vec{Plugin: "sleep", Proto: 46, Args: []string{"0s"}, Args4: []string{"0s"}},
	)
	// 70 DNS servers / routers: option longer than 255 bytes
	many := make([]string, 70)
	for i := range many {
		many[i] = fmt.Sprintf("10.1.%d.%d", i/200, i%200+1)
	}
	out = append(out, Vec{Plugin: "dns", Proto: 4, Args: many}, Vec{Plugin: "router", Proto: 4, Args: many})
	many6 := make([]string, 70)
	for i := range many6 {
		many6[i] = fmt.Sprintf("2001:db8::%x", i+1)
	}
	out = append(out, Vec{Plugin: "dns", Proto: 6, Args: many6})
	manyR := make([]string, 40)
	for i := range manyR {
		manyR[i] = fmt.Sprintf("10.%d.0.0/16,192.0.2.%d", i, i+1)
	}
	out = append(out, Vec{Plugin: "staticroute", Proto: 4, Args: manyR})
	// range: (db file, start, end, lease) incl. wrong arity and bad values
	db := func(n string) string { return filepath.Join(scratch, n) }
	i := 0
	for _, st := range []string{"10.0.0.10", "10.0.0.20", "2001:db8::1", "::ffff:10.0.0.10", "bogus", "255.255.255.254", "0.0.0.0"} {
		for _, en := range []string{"10.0.0.20", "10.0.0.10", "2001:db8::9", "255.255.255.255", "bogus", "::ffff:10.0.0.20"} {
			for _, lt := range []string{"60s", "0s", "-1s", "abc", "2562047h"} {
				i++
				out = append(out, Vec{Plugin: "range", Proto: 4, Args: []string{db(fmt.Sprintf("r%d.sqlite", i)), st, en, lt}})
			}
		}
	}
	out = append(out, Vec{Plugin: "range", Proto: 4, Args: nil}, Vec{Plugin: "range", Proto: 4, Args: []string{db("x.sqlite")}}, Vec{Plugin: "range", Proto: 4, Args: []string{"", "10.0.0.1", "10.0.0.9", "60s"}},
		Vec{Plugin: "range", Proto: 4, Args: []string{scratch, "10.0.0.1", "10.0.0.9", "60s"}}, Vec{Plugin: "range", Proto: 4, Args: []string{db("nodir/x.sqlite"), "10.0.0.1", "10.0.0.9", "60s"}},
		Vec{Plugin: "range", Proto: 4, Args: []string{bad, "10.0.0.1", "10.0.0.9", "60s"}}, Vec{Plugin: "range", Proto: 4, Args: []string{db("five.sqlite"), "10.0.0.1", "10.0.0.9", "60s", "extra"}})
	return out
}

// prefixOK keeps prefix pools small enough to allocate (order <= 16).
func prefixOK(a []string) bool {
	_, n, err := net.ParseCIDR(a[0])
	if err != nil {
		return true
	}
	var sz int
	if _, err := fmt.Sscan(a[1], &sz); err != nil {
		return true
	}
	pl, _ := n.Mask.Size()
	return sz-pl <= 16
}

// MonitorBuiltins (used by C13): every built-in plugin under one valid configuration each
// per protocol, driven with the request battery; a nil response must come with stop.
func MonitorBuiltins(r *ev.Run) {
	scratch := srv.Scratch()
	good4 := filepath.Join(scratch, "mon-leases4.txt")
	good6 := filepath.Join(scratch, "mon-leases6.txt")
	os.WriteFile(good4, []byte("02:00:00:17:00:01 10.0.0.77\n"), 0o644)
	os.WriteFile(good6, []byte("02:00:00:17:00:01 2001:db8::77\n"), 0o644)
	vecs := validVectors(false)
	vecs = append(vecs,
		Vec{Plugin: "server_id", Proto: 4, Args: []string{"10.0.0.1"}}, Vec{Plugin: "server_id", Proto: 6, Args: []string{"LL", "00:de:ad:be:ef:00"}},
		Vec{Plugin: "file", Proto: 4, Args: []string{good4}}, Vec{Plugin: "file", Proto: 6, Args: []string{good6}},
		Vec{Plugin: "range", Proto: 4, Args: []string{filepath.Join(scratch, "mon.sqlite"), "10.0.0.10", "10.0.0.11", "60s"}},
		Vec{Plugin: "prefix", Proto: 6, Args: []string{"2001:db8::/63", "64"}})
	spawnAll(r, "C13", vecs)
}

// Worker is the worker entry point for another check id reusing this machinery.
func Worker(id string, args []string) int { return worker(id, args) }

var regOnce sync.Once

func registerBuiltins() {
	regOnce.Do(func() {
		for _, p := range Plugins {
			if _, ok := plugins.RegisteredPlugins[p.Name]; !ok {
				plugins.RegisterPlugin(p)
			}
		}
	})
}

// Battery4 exposes the DHCPv4 request battery (raw datagrams) for other checks.
func Battery4(codes []byte) [][]byte {
	var out [][]byte
	seen := map[string]bool{}
	for _, rq := range battery4(codes) {
		if !seen[string(rq.bytes)] {
			seen[string(rq.bytes)] = true
			out = append(out, rq.bytes)
		}
	}
	return out
}

// Battery6 exposes the DHCPv6 request battery.
func Battery6(codes []uint16) [][]byte {
	var out [][]byte
	for _, rq := range battery6(codes) {
		out = append(out, rq.bytes)
	}
	return out
}

// ValidArgs returns one valid argument vector per built-in plugin and protocol.
func ValidArgs(scratch string) (v4, v6 map[string][]string) {
	os.WriteFile(filepath.Join(scratch, "valid-leases4.txt"), []byte("02:00:00:17:00:01 10.10.10.7\n"), 0o644)
	os.WriteFile(filepath.Join(scratch, "valid-leases6.txt"), []byte("02:00:00:17:00:01 2001:db8:9::7\n"), 0o644)
	v4 = map[string][]string{
		"lease_time": {"3600s"}, "dns": {"8.8.8.8", "8.8.4.4"}, "router": {"192.168.1.1"}, "netmask": {"255.255.255.0"},
		"range": {filepath.Join(scratch, "valid-leases.sqlite"), "10.10.10.100", "10.10.10.120", "60s"},
		"file":  {filepath.Join(scratch, "valid-leases4.txt")}, "mtu": {"1500"}, "searchdomains": {"a.example", "b.example"},
		"staticroute": {"10.0.0.0/8,10.10.10.1"}, "ipv6only": {"300s"}, "autoconfigure": {"1"}, "nbp": {"tftp://10.0.0.254/pxelinux.0"}, "sleep": {"0s"},
	}
	v6 = map[string][]string{
		"file": {filepath.Join(scratch, "valid-leases6.txt")}, "dns": {"2001:4860:4860::8888"}, "nbp": {"http://[2001:db8:a::1]/nbp?params=x"},
		"prefix": {"2001:db8:0:10::/60", "64"}, "searchdomains": {"a.example"}, "sleep": {"0s"},
	}
	return
}
