// Package pd: C08 (delegated prefixes in pool, well-formed, disjoint across clients) and
// C09 (a client keeps its prefix) on the real prefix plugin. Engine E1: BFS to fixpoint over
// the real handler, requests built as wire bytes and parsed by the library as the server does.
package pd

import (
	"bytes"
	"encoding/binary"
	"encoding/hex"
	"encoding/json"
	"fmt"
	"math/big"
	"net"
	"os"
	"sort"
	"strings"
	"time"

	"github.com/coredhcp/coredhcp/handler"
	"github.com/coredhcp/coredhcp/plugins/prefix"
	"github.com/insomniacslk/dhcp/dhcpv6"

	"verifmc/checks/c16"
	"verifmc/ev"
	"verifmc/explore"
	"verifmc/pkt"
	"verifmc/reg"
	"verifmc/srv"
	"verifmc/verifsched"
)

func init() {
	for _, id := range []string{"C08", "C09"} {
		id := id
		reg.Register(&reg.Check{ID: id, Level: "model_checking",
			Run: func(r *ev.Run) { describe(r); reg.Isolated(r, id, 3*time.Hour) },
			Worker: func(a []string) int {
				r := ev.New(id, reg.Tier, "model_checking")
				run(r, id)
				return reg.WorkerExit(r)
			},
			Replay: func(r *ev.Run, c json.RawMessage) { replayCase(r, id, c) }})
	}
}

// Hint kinds are symbolic; they are resolved against the ghost when the op is applied, and
// the resolved prefixes are recorded in the op so that a replay file is self-contained.
type Op struct {
	Client string     `json:"client"`
	Msg    byte       `json:"msg_type"` // 1 solicit, 3 request, 5 renew
	Relay  int        `json:"relay_depth"`
	Link   int        `json:"relay_link,omitempty"`     // which relay agent forwarded it (link-address variant 0..2)
	Repeat int        `json:"repeat,omitempty"`         // the message is sent this many times in a row (oracles on the last one)
	HLife  string     `json:"hint_lifetimes,omitempty"` // preferred/valid lifetime fields of the IAPrefix hints: "" = 0/0, "p0v1800", "p3000v600", "p100v200", "max"
	IAPDs  [][]string `json:"iapds"`                    // per IA_PD: list of symbolic hints
	NoCID  bool       `json:"no_client_id,omitempty"`
	Age    bool       `json:"age,omitempty"`                // not a message: all leases run out (time passes)
	Long   bool       `json:"long,omitempty"`               // age: two days instead of an hour
	Dur    string     `json:"elapsed,omitempty"`            // age: exactly this much time passes (sweeps)
	XCode  int        `json:"extra_option,omitempty"`       // one more top-level option (code) ...
	XData  string     `json:"extra_option_data,omitempty"`  // ... with this payload (hex)
	XFirst bool       `json:"extra_option_first,omitempty"` // placed before the IA_PDs instead of after
	Timers string     `json:"t1_t2,omitempty"`              // "" = 0/0; "t1>t2" = 3600/1800; "max" = ffffffff/ffffffff
}

type Pool struct {
	CIDR string `json:"cidr"`
	Page int    `json:"page"`
}

type Case struct {
	Pool Pool `json:"pool"`
	Hist []Op `json:"history"`
}

type told struct {
	prefix string // canonical "ip/len"
	block  int64
	life   uint32    // valid lifetime last told
	before time.Time // harness clock before the handler call that told it
}

type Sys struct {
	r        *ev.Run
	id       string
	pool     Pool
	base     *big.Int
	size     *big.Int
	n        int64
	h        handler.Handler6
	hd       *prefix.Handler
	ghost    map[string][]told // client -> prefixes told, in order first told
	hist     []Op
	dead     bool
	broken   bool
	aged     map[string]bool // ghost: clients whose leases ran out since they were last answered
	agedLong map[string]bool // ghost: ... more than two days ago
	nclients int
	rich     bool
}

// duidOf: the client identifiers are chosen adversarially. A is a DUID-EN with a 200-octet
// identifier (longer than the 130 octets RFC 8415 allows, which the codec accepts), B is A
// plus one more octet: A is a strict prefix of B and both agree in their first 206 octets.
// C is a short DUID-LL.
func duidOf(client string) []byte {
	long := append([]byte{0, 2, 0, 0, 0x9, 0xbf}, bytes.Repeat([]byte{0x5a}, 199)...)
	switch client {
	case "A":
		return append(long, 'A')
	case "B":
		return append(append(long, 'A'), 'B')
	}
	return []byte{0, 3, 0, 1, 2, 0, 0, 0, 0, client[0]}
}

// iaidOf: IAIDs with the high bit set, zero and all-ones.
func iaidOf(i int) uint32 {
	return []uint32{0x80000001, 0, 0xffffffff, 0x7fffffff, 1, 2, 3, 4}[i%8]
}

func iaidIndex(id uint32) int {
	for i := 0; i < 8; i++ {
		if iaidOf(i) == id {
			return i
		}
	}
	return -1
}

func NewSys(r *ev.Run, id string, p Pool, nclients int, rich bool) *Sys {
	s := &Sys{r: r, id: id, pool: p, ghost: map[string][]told{}, aged: map[string]bool{}, agedLong: map[string]bool{}, nclients: nclients, rich: rich}
	_, ipn, err := net.ParseCIDR(p.CIDR)
	if err != nil {
		panic(err)
	}
	pl, _ := ipn.Mask.Size()
	s.base = new(big.Int).SetBytes(ipn.IP.To16())
	s.size = new(big.Int).Lsh(big.NewInt(1), uint(128-p.Page))
	s.n = 1 << uint(p.Page-pl)
	s.h, err = prefix.Plugin.Setup6(p.CIDR, fmt.Sprint(p.Page))
	if err != nil {
		panic(err)
	}
	srv.PrefixGate.Lock()
	defer srv.PrefixGate.Unlock()
	s.hd = prefix.VerifCapture(func() {
		m := pkt.Msg6{Type: 1}
		req, _ := dhcpv6.FromBytes(m.Bytes())
		s.h(req, &dhcpv6.Message{MessageType: dhcpv6.MessageTypeAdvertise})
	})
	if s.hd == nil {
		panic("prefix handler not captured")
	}
	return s
}

// Terminal reports that this state must not be explored further.
func (s *Sys) Terminal() bool { return s.dead || s.broken }

func (s *Sys) Close() {}

func (s *Sys) blockOf(ip net.IP) int64 {
	d := new(big.Int).Sub(new(big.Int).SetBytes(ip.To16()), s.base)
	if d.Sign() < 0 {
		return -1
	}
	q := new(big.Int).Div(d, s.size)
	if !q.IsInt64() || q.Int64() >= s.n {
		return -1
	}
	return q.Int64()
}

func (s *Sys) blockPrefix(i int64) string {
	a := new(big.Int).Add(s.base, new(big.Int).Mul(big.NewInt(i), s.size))
	b := a.Bytes()
	ip := make(net.IP, 16)
	copy(ip[16-len(b):], b)
	return fmt.Sprintf("%s/%d", ip, s.pool.Page)
}

func (s *Sys) heldBy(block int64) string {
	for c, ts := range s.ghost {
		for _, t := range ts {
			if t.block == block {
				return c
			}
		}
	}
	return ""
}

func (s *Sys) freeBlocks() []int64 {
	var out []int64
	for i := int64(0); i < s.n; i++ {
		if s.heldBy(i) == "" {
			out = append(out, i)
		}
	}
	return out
}

// resolve turns a symbolic hint into "ip/len" ("" = not resolvable in this state; "none" = no IAPrefix).
func (s *Sys) resolve(client, sym string) (string, bool) {
	other := "A"
	if client == "A" {
		other = "B"
	}
	switch sym {
	case "own1":
		if len(s.ghost[client]) > 0 {
			return s.ghost[client][0].prefix, true
		}
		return "", false
	case "own2":
		if len(s.ghost[client]) > 1 {
			return s.ghost[client][1].prefix, true
		}
		return "", false
	case "own1-short", "own1-long", "own2-short":
		// the address of a prefix the client holds, written with another length
		k := 0
		if sym == "own2-short" {
			k = 1
		}
		if len(s.ghost[client]) > k {
			d := -1
			if sym == "own1-long" {
				d = 8
			}
			return strings.Split(s.ghost[client][k].prefix, "/")[0] + fmt.Sprintf("/%d", s.pool.Page+d), true
		}
		return "", false
	case "other1":
		if len(s.ghost[other]) > 0 {
			return s.ghost[other][0].prefix, true
		}
		return "", false
	case "free1", "free2", "free1-long", "free1-short":
		fb := s.freeBlocks()
		k := 0
		if sym == "free2" {
			k = 1
		}
		// highest free blocks, so that the default "first clear" choice differs from the hint
		if len(fb) <= k {
			return "", false
		}
		p := s.blockPrefix(fb[len(fb)-1-k])
		if sym == "free1-long" {
			p = strings.Split(p, "/")[0] + fmt.Sprintf("/%d", s.pool.Page+8)
		}
		if sym == "free1-short" {
			// address of a free block, but a length shorter than the pool's own prefix
			p = strings.Split(p, "/")[0] + fmt.Sprintf("/%d", s.pool.Page-16)
		}
		return p, true
	case "outside":
		return fmt.Sprintf("2001:db8:ffff:ffff::/%d", s.pool.Page), true
	case "len0":
		return "::/0", true
	case "len-page":
		return fmt.Sprintf("::/%d", s.pool.Page), true
	case "len-short":
		return fmt.Sprintf("::/%d", s.pool.Page-8), true
	case "len-long":
		return fmt.Sprintf("::/%d", s.pool.Page+8), true
	}
	if strings.Contains(sym, "/") {
		return sym, true // already concrete (replay)
	}
	panic("unknown hint " + sym)
}

func (s *Sys) Ops() []Op {
	if s.dead || s.broken {
		return nil
	}
	var ops []Op
	clients := []string{"A", "B", "C"}[:s.nclients]
	single := []string{"len0", "len-page", "len-short", "len-long", "own1", "own2", "other1", "free1", "free1-long", "free1-short", "outside"}
	for _, c := range clients {
		ops = append(ops, Op{Client: c, Msg: 1, IAPDs: [][]string{{}}}) // one IA_PD, no IAPrefix
		for _, h := range single {
			if _, ok := s.resolve(c, h); ok {
				ops = append(ops, Op{Client: c, Msg: 1, IAPDs: [][]string{{h}}})
			}
		}
		for _, hs := range [][]string{{"free1", "free2"}, {"own1", "free1"}, {"own1", "own2"}, {"len0", "len0"}} {
			ok := true
			for _, h := range hs {
				if _, o := s.resolve(c, h); !o {
					ok = false
				}
			}
			if ok {
				ops = append(ops, Op{Client: c, Msg: 1, IAPDs: [][]string{hs}})
			}
		}
		// T1/T2 as a client may send them (the server must serve the IA_PD whatever they are)
		ops = append(ops, Op{Client: c, Msg: 5, Timers: "t1>t2", IAPDs: [][]string{{}}})
		if _, ok := s.resolve(c, "own1"); ok {
			ops = append(ops, Op{Client: c, Msg: 5, Timers: "t1>t2", IAPDs: [][]string{{"own1"}}})
			ops = append(ops, Op{Client: c, Msg: 5, Timers: "max", IAPDs: [][]string{{"own1"}}})
		}
		// other message types a client sends about prefixes it holds: Rebind, Release
		for _, h := range []string{"own1", "own1-short", "own2-short", "own1-long"} {
			if _, ok := s.resolve(c, h); ok {
				ops = append(ops, Op{Client: c, Msg: 8, IAPDs: [][]string{{h}}})
				if h != "own1" {
					ops = append(ops, Op{Client: c, Msg: 6, IAPDs: [][]string{{h}}})
				}
			}
		}
		// the same client reached through different relay agents (and directly)
		ops = append(ops, Op{Client: c, Msg: 1, Relay: 1, Link: 1, IAPDs: [][]string{{}}})
		if _, ok := s.resolve(c, "own1"); ok {
			ops = append(ops, Op{Client: c, Msg: 5, Relay: 1, Link: 2, IAPDs: [][]string{{"own1"}}})
			ops = append(ops, Op{Client: c, Msg: 3, Relay: 2, Link: 1, IAPDs: [][]string{{}}})
		}
		ops = append(ops, Op{Client: c, Msg: 4, IAPDs: [][]string{{}}})     // Confirm
		ops = append(ops, Op{Client: c, Msg: 11, IAPDs: [][]string{{}}})    // Information-Request
		ops = append(ops, Op{Client: c, Msg: 1, IAPDs: [][]string{}})       // no IA_PD at all
		ops = append(ops, Op{Client: c, Msg: 1, IAPDs: [][]string{{}, {}}}) // two IA_PDs
		ops = append(ops, Op{Client: c, Msg: 1, IAPDs: [][]string{{"free1"}, {"len-page"}, {}}})
		if s.rich {
			if _, ok := s.resolve(c, "own1"); ok {
				ops = append(ops, Op{Client: c, Msg: 5, IAPDs: [][]string{{"own1"}, {}}})
				ops = append(ops, Op{Client: c, Msg: 5, Relay: 1, IAPDs: [][]string{{"own1"}}})
			}
			ops = append(ops, Op{Client: c, Msg: 3, Relay: 1, IAPDs: [][]string{{}}})
			ops = append(ops, Op{Client: c, Msg: 3, IAPDs: [][]string{{"len-page"}, {"free1"}}})
		}
	}
	ops = append(ops, Op{Client: "A", Msg: 1, NoCID: true, IAPDs: [][]string{{}}})
	if len(s.aged) < len(s.ghost) {
		ops = append(ops, Op{Client: "-", Age: true, IAPDs: [][]string{}})
	}
	if len(s.agedLong) < len(s.ghost) {
		ops = append(ops, Op{Client: "-", Age: true, Long: true, IAPDs: [][]string{}})
	}
	// resolve now, so ops are concrete and deterministic
	for i := range ops {
		ops[i] = s.concretize(ops[i])
	}
	// drop ops whose second-level resolution failed
	out := ops[:0]
	seen := map[string]bool{}
	for _, o := range ops {
		k, _ := json.Marshal(o)
		if !seen[string(k)] {
			seen[string(k)] = true
			out = append(out, o)
		}
	}
	return out
}

func (s *Sys) concretize(o Op) Op {
	n := Op{Client: o.Client, Msg: o.Msg, Relay: o.Relay, NoCID: o.NoCID, Age: o.Age, Long: o.Long, Dur: o.Dur, Timers: o.Timers, Link: o.Link, Repeat: o.Repeat, HLife: o.HLife, XCode: o.XCode, XData: o.XData, XFirst: o.XFirst, IAPDs: [][]string{}}
	for _, hs := range o.IAPDs {
		c := []string{}
		for _, h := range hs {
			if p, ok := s.resolve(o.Client, h); ok {
				c = append(c, p)
			}
		}
		n.IAPDs = append(n.IAPDs, c)
	}
	return n
}

func (s *Sys) Key() string {
	if s.dead {
		return "dead-after-panic"
	}
	if s.broken {
		return "property-violated (terminal)"
	}
	d := s.hd.VerifDump()
	var g []string
	for c, ts := range s.ghost {
		e := c + ":"
		for _, t := range ts {
			e += t.prefix + ","
		}
		g = append(g, e)
	}
	sort.Strings(g)
	var ag []string
	for c := range s.aged {
		ag = append(ag, c)
	}
	sort.Strings(ag)
	var al []string
	for c := range s.agedLong {
		al = append(al, c)
	}
	sort.Strings(al)
	return fmt.Sprintf("leases=%v bits=%v ghost=%v expired=%v long-expired=%v", d.Leases, d.Bits, g, ag, al)
}

func buildReq(o Op) []byte {
	m := pkt.Msg6{Type: o.Msg, Xid: [3]byte{8, 9, o.Client[0]}}
	if !o.NoCID {
		m.Opts = append(m.Opts, pkt.Opt6{Code: 1, Data: duidOf(o.Client)})
	}
	if o.Msg != 1 {
		m.Opts = append(m.Opts, pkt.Opt6{Code: 2, Data: []byte{0, 3, 0, 1, 0, 0xde, 0xad, 0xbe, 0xef, 0}})
	}
	xd, _ := hex.DecodeString(o.XData)
	if o.XCode != 0 && o.XFirst {
		m.Opts = append(m.Opts, pkt.Opt6{Code: uint16(o.XCode), Data: xd})
	}
	for i, hs := range o.IAPDs {
		d := binary.BigEndian.AppendUint32(nil, iaidOf(i))
		switch o.Timers {
		case "t1>t2":
			d = append(d, 0, 0, 0x0e, 0x10, 0, 0, 0x07, 0x08)
		case "max":
			d = append(d, 0xff, 0xff, 0xff, 0xff, 0xff, 0xff, 0xff, 0xff)
		default:
			d = append(d, 0, 0, 0, 0, 0, 0, 0, 0)
		}
		for _, h := range hs {
			ip, ipn, err := net.ParseCIDR(h)
			if err != nil {
				panic(h)
			}
			l, _ := ipn.Mask.Size()
			lt := []byte{0, 0, 0, 0, 0, 0, 0, 0}
			switch o.HLife {
			case "p0v1800":
				lt = []byte{0, 0, 0, 0, 0, 0, 0x07, 0x08}
			case "p3000v600":
				lt = []byte{0, 0, 0x0b, 0xb8, 0, 0, 0x02, 0x58}
			case "p100v200":
				lt = []byte{0, 0, 0, 100, 0, 0, 0, 200}
			case "max":
				lt = []byte{0xff, 0xff, 0xff, 0xff, 0xff, 0xff, 0xff, 0xff}
			}
			body := append(append(append([]byte{}, lt...), byte(l)), ip.To16()...)
			d = append(d, pkt.EncOpts6([]pkt.Opt6{{Code: 26, Data: body}})...)
		}
		m.Opts = append(m.Opts, pkt.Opt6{Code: 25, Data: d})
	}
	if o.XCode != 0 && !o.XFirst {
		m.Opts = append(m.Opts, pkt.Opt6{Code: uint16(o.XCode), Data: xd})
	}
	b := m.Bytes()
	for i := 0; i < o.Relay; i++ {
		l := pkt.Relay6{Type: 12, Inner: b}
		l.Link[0], l.Peer[0], l.Peer[1] = 0x20, 0xfe, 0x80
		if o.Link != 0 {
			// another relay agent on the same link: its own interface address
			copy(l.Link[:], net.ParseIP(fmt.Sprintf("2001:db8:%d::1", o.Link)).To16())
		}
		b = l.Bytes()
	}
	return b
}

func (s *Sys) violate(prop, sig, what string) {
	if prop != s.id {
		return
	}
	// a state in which the property is already violated is not explored further: broken
	// states can have unboundedly many successors (e.g. a bitmap that grows past the pool)
	s.broken = true
	s.r.Violate(prop+"/"+sig, fmt.Sprintf("pool %s->/%d: %s (history of %d messages)", s.pool.CIDR, s.pool.Page, what, len(s.hist)), Case{s.pool, append([]Op{}, s.hist...)})
}

type respPD struct {
	iaid     uint32
	prefixes []respPrefix
	status   int // -1 none
}
type respPrefix struct {
	cidr      string
	ip        net.IP
	plen      int
	pref, val uint32
}

func parseResp(b []byte) ([]respPD, error) {
	p, err := pkt.Parse6(b)
	if err != nil || p.Msg == nil {
		return nil, fmt.Errorf("unparseable reply: %v", err)
	}
	var out []respPD
	for _, o := range p.Msg.Opts {
		if o.Code != 25 {
			continue
		}
		if len(o.Data) < 12 {
			return nil, fmt.Errorf("short IA_PD")
		}
		pd := respPD{iaid: binary.BigEndian.Uint32(o.Data), status: -1}
		sub, err := pkt.ParseOpts6(o.Data[12:])
		if err != nil {
			return nil, err
		}
		for _, so := range sub {
			switch so.Code {
			case 26:
				if len(so.Data) < 25 {
					return nil, fmt.Errorf("short IAPrefix")
				}
				rp := respPrefix{pref: binary.BigEndian.Uint32(so.Data), val: binary.BigEndian.Uint32(so.Data[4:]), plen: int(so.Data[8]), ip: net.IP(so.Data[9:25])}
				rp.cidr = fmt.Sprintf("%s/%d", rp.ip, rp.plen)
				pd.prefixes = append(pd.prefixes, rp)
			case 13:
				if len(so.Data) >= 2 {
					pd.status = int(binary.BigEndian.Uint16(so.Data))
				}
			}
		}
		out = append(out, pd)
	}
	return out, nil
}

func (s *Sys) Apply(op Op, live bool) (obs string) {
	if s.dead {
		return "dead"
	}
	if op.Repeat > 1 {
		one := op
		one.Repeat = 0
		n := len(s.hist)
		for i := 0; i < op.Repeat-1 && !s.dead && !s.broken; i++ {
			s.Apply(one, false)
			s.hist = s.hist[:n]
		}
		obs = s.Apply(one, live)
		s.hist = append(s.hist[:n], op)
		return obs
	}
	s.hist = append(s.hist, op)
	if op.Age {
		d := time.Hour + 2*time.Minute
		if op.Long {
			d = 49 * time.Hour
		}
		if op.Dur != "" {
			var err error
			if d, err = time.ParseDuration(op.Dur); err != nil {
				panic(err)
			}
		}
		s.hd.VerifAge(d)
		if os.Getenv("VERIF_SCHED") == "1" {
			verifsched.AdvanceGlobal(d) // whatever else the instrumented plugin remembers about "when"
		}
		for c, ts := range s.ghost {
			s.aged[c] = true
			if op.Long {
				s.agedLong[c] = true
			}
			for i := range ts {
				ts[i].before = ts[i].before.Add(-d)
			}
		}
		return "aged"
	}
	if s.hd.VerifLocked() {
		// an earlier message left the handler mutex held: every further message would block
		// forever, so the instance is dead (reported when the lock was first seen held)
		s.dead = true
		return "dead: mutex held"
	}
	wire := buildReq(op)
	req, err := dhcpv6.FromBytes(wire)
	if err != nil {
		panic(fmt.Sprintf("harness request does not parse: %v (%x)", err, wire))
	}
	inner, _ := req.GetInnerMessage()
	var resp dhcpv6.DHCPv6
	if op.NoCID {
		resp = &dhcpv6.Message{MessageType: dhcpv6.MessageTypeAdvertise, TransactionID: inner.TransactionID}
	} else if inner.MessageType == dhcpv6.MessageTypeSolicit {
		resp, err = dhcpv6.NewAdvertiseFromSolicit(inner)
	} else {
		resp, err = dhcpv6.NewReplyFromMessage(inner)
	}
	if err != nil {
		panic(err)
	}
	bitsBefore := len(s.hd.VerifDump().Bits)
	tBefore := verifsched.Now() // the plugin's clock (real time + virtual time passed)
	var out dhcpv6.DHCPv6
	var stop bool
	pan := func() (p string) {
		defer func() {
			if e := recover(); e != nil {
				p = fmt.Sprint(e)
			}
		}()
		srv.PrefixGate.RLock()
		defer srv.PrefixGate.RUnlock()
		defer verifsched.HoldClock()()
		defer reg.OpBegin(fmt.Sprintf("pool %s->/%d: message %x after %d messages", s.pool.CIDR, s.pool.Page, wire, len(s.hist)-1))()
		out, stop = s.h(req, resp)
		return
	}()
	tAfter := verifsched.Now()
	if pan == "" && s.hd.VerifLocked() {
		// every later message (and every state dump) would block forever
		s.dead = true
		if live {
			s.violate("C08", "lock-left-held", "handler returned with its mutex held")
			s.violate("C09", "lock-left-held", "handler returned with its mutex held: no later renewal can be answered")
			s.violate("C01", "history/prefix/lock-left-held", "the prefix handler returned with its mutex held: every later IA_PD datagram blocks forever")
			s.r.Eval("lock-left-held")
		}
		return "LOCK-LEFT-HELD"
	}
	class := fmt.Sprintf("msg=%d/relay=%d/iapds=%d", op.Msg, op.Relay, len(op.IAPDs))
	defer func() {
		if live {
			s.r.Eval(class)
			s.r.Sample(class, Case{s.pool, append([]Op{}, s.hist...)})
		}
	}()
	if pan != "" {
		s.dead = true
		if live {
			// crash + lock left held: the property most directly concerned is C09 (repeat
			// requests must be answered); C01 reports it as a crash in its own check.
			s.violate("C09", "panic-on-repeat", fmt.Sprintf("handler panicked (%s) on message %s", pan, hex.EncodeToString(wire)))
			s.violate("C08", "panic", fmt.Sprintf("handler panicked (%s)", pan))
			s.violate("C19", "prefix/panic", fmt.Sprintf("the prefix handler of an accepted configuration panicked (%s) on message %s after a history of %d messages", pan, hex.EncodeToString(wire), len(s.hist)-1))
			s.violate("C01", "history/prefix/panic", fmt.Sprintf("the prefix handler panicked (%s) on message %s: in the server this kills the process", pan, hex.EncodeToString(wire)))
		}
		class += "/panic"
		return "PANIC " + pan
	}
	if op.NoCID {
		if live && (out != nil || !stop) {
			s.violate("C08", "no-client-id-answered", "message without client identifier was not dropped")
		}
		class += "/no-cid"
		return "nocid-dropped"
	}
	if out == nil {
		if live {
			s.violate("C08", "dropped", "message with client identifier was dropped by the prefix plugin")
		}
		return "dropped"
	}
	pds, perr := parseResp(out.ToBytes())
	if perr != nil {
		if live {
			s.violate("C08", "reply-unparseable", perr.Error())
		}
		return "unparseable"
	}
	// ---- C08: structure
	holdBefore := map[string]bool{}
	for _, t := range s.ghost[op.Client] {
		holdBefore[t.prefix] = true
	}
	// A Release may legitimately be answered without re-delegating anything (and a server that
	// implements it gives the block back): for it only the safety clauses stay in force, and
	// what the reply does not delegate again is no longer counted as held by the client.
	// (The same caution applies to Confirm and Information-Request, which by RFC 8415 do not
	// delegate anything.)
	isRelease := op.Msg == 8 || op.Msg == 4 || op.Msg == 11
	if live && !isRelease {
		var wantIDs, gotIDs []int
		for i := range op.IAPDs {
			wantIDs = append(wantIDs, int(iaidOf(i)))
		}
		sort.Ints(wantIDs)
		for _, pd := range pds {
			gotIDs = append(gotIDs, int(pd.iaid))
		}
		sort.Ints(gotIDs)
		if fmt.Sprint(wantIDs) != fmt.Sprint(gotIDs) {
			s.violate("C08", "iapd-mismatch", fmt.Sprintf("request IA_PD IAIDs %x answered with IAIDs %x", wantIDs, gotIDs))
		}
	}
	delete(s.aged, op.Client)
	delete(s.agedLong, op.Client)
	var obsParts []string
	allRepeat := true // message consists only of hint-less / exactly-held IA_PDs
	for _, hs := range op.IAPDs {
		zero := 0
		for _, h := range hs {
			if h == "::/0" {
				zero++
			} else if !holdBefore[h] {
				allRepeat = false
			}
		}
		if zero > 1 || (zero == 1 && len(hs) > 1) {
			allRepeat = false // several unspecified hints ask for several prefixes: not a plain repeat
		}
	}
	heldSoFar := map[string]bool{} // prefixes delegated by earlier IA_PDs of this same reply
	var prevGot []string
	for _, pd := range pds {
		for _, p := range prevGot {
			heldSoFar[p] = true
		}
		idx := iaidIndex(pd.iaid)
		if live && !isRelease && len(pd.prefixes) == 0 && pd.status != 6 {
			s.violate("C08", "empty-iapd", fmt.Sprintf("IA_PD %x answered with neither a prefix nor NoPrefixAvail (status %d)", pd.iaid, pd.status))
		}
		var got []string
		for _, rp := range pd.prefixes {
			got = append(got, rp.cidr)
			blk := s.blockOf(rp.ip)
			if live {
				switch {
				case blk < 0:
					s.violate("C08", "outside-pool", fmt.Sprintf("delegated %s is outside the pool", rp.cidr))
				case s.blockPrefix(blk) != fmt.Sprintf("%s/%d", rp.ip, s.pool.Page):
					s.violate("C08", "unaligned", fmt.Sprintf("delegated %s is not aligned to /%d", rp.cidr, s.pool.Page))
				}
				if rp.plen < s.pool.Page {
					s.violate("C08", "too-large", fmt.Sprintf("delegated %s is larger than the allocation size /%d", rp.cidr, s.pool.Page))
				}
				if rp.pref == 0 || rp.pref > rp.val || rp.val > 3600 {
					s.violate("C08", "lifetimes", fmt.Sprintf("delegated %s has preferred=%d valid=%d", rp.cidr, rp.pref, rp.val))
				}
				if o := s.heldBy(blk); blk >= 0 && o != "" && o != op.Client {
					s.violate("C08", "overlap-across-clients", fmt.Sprintf("block %d (%s) delegated to client %s is held by client %s", blk, rp.cidr, op.Client, o))
				}
			}
			// ghost update
			if blk >= 0 {
				found := false
				for i, t := range s.ghost[op.Client] {
					if t.block == blk {
						found = true
						if live && t.prefix == rp.cidr && !(tAfter.Add(time.Duration(rp.val+1) * time.Second).After(t.before.Add(time.Duration(t.life) * time.Second))) {
							s.violate("C09", "lifetime-shortened", fmt.Sprintf("%s re-delegated with valid lifetime %d s, less than what remained of %d s", rp.cidr, rp.val, t.life))
						}
						s.ghost[op.Client][i].life, s.ghost[op.Client][i].before = rp.val, tBefore
					}
				}
				if !found {
					s.ghost[op.Client] = append(s.ghost[op.Client], told{rp.cidr, blk, rp.val, tBefore})
				}
			}
		}
		obsParts = append(obsParts, fmt.Sprintf("%x:%v/st=%d", pd.iaid, got, pd.status))
		prevGot = got
		// ---- C09: keep your prefix
		if idx >= 0 && idx < len(op.IAPDs) && live && !isRelease && len(holdBefore) > 0 {
			hs := op.IAPDs[idx]
			hintless := len(hs) == 0
			for _, h := range hs {
				hintless = hintless || h == "::/0"
			}
			has := func(p string) bool {
				for _, g := range got {
					if g == p {
						return true
					}
				}
				return false
			}
			for _, h := range hs {
				if holdBefore[h] && !has(h) {
					s.violate("C09", "exact-renewal-not-honoured", fmt.Sprintf("client %s holds %s and asked for exactly it, answer was %v", op.Client, h, got))
				}
			}
			if hintless && len(hs) <= 1 {
				for p := range holdBefore {
					if !has(p) {
						s.violate("C09", "hintless-repeat-different-prefix", fmt.Sprintf("client %s holds %v; a hint-less IA_PD was answered with %v", op.Client, keys(holdBefore), got))
						break
					}
				}
				for _, g := range got {
					if !holdBefore[g] && !heldSoFar[g] {
						s.violate("C09", "hintless-repeat-new-prefix", fmt.Sprintf("client %s holds %v; a hint-less IA_PD was answered with an additional prefix %s", op.Client, keys(holdBefore), g))
						break
					}
				}
			}
		}
	}
	if live && !isRelease && len(holdBefore) > 0 {
		// a repeat IA_PD (exact held hint, or no hint) that the reply does not answer at all
		// is "not answered with P again"
		answered := map[int]bool{}
		for _, pd := range pds {
			answered[iaidIndex(pd.iaid)] = true
		}
		for i, hs := range op.IAPDs {
			if answered[i] {
				continue
			}
			repeat := len(hs) == 0 || (len(hs) == 1 && hs[0] == "::/0")
			for _, h := range hs {
				repeat = repeat || holdBefore[h]
			}
			if repeat {
				s.violate("C09", "repeat-not-answered", fmt.Sprintf("client %s holds %v; its IA_PD %x (hints %v, T1/T2 %q) got no IA_PD in the reply (%x)", op.Client, keys(holdBefore), iaidOf(i), hs, op.Timers, out.ToBytes()))
			}
		}
	}
	if isRelease {
		again := map[string]bool{}
		for _, pd := range pds {
			for _, rp := range pd.prefixes {
				again[rp.ip.String()] = true
			}
		}
		// ... and only what the server itself no longer records for the client (hook dump;
		// this can only weaken later oracles, it never produces a verdict)
		for _, l := range s.hd.VerifDump().Leases {
			if strings.HasPrefix(l, hex.EncodeToString(duidOf(op.Client))+"=") {
				for _, p := range strings.Split(strings.SplitN(l, "=", 2)[1], ",") {
					if ip := net.ParseIP(strings.Split(p, "/")[0]); ip != nil {
						again[ip.String()] = true
					}
				}
			}
		}
		for _, hs := range op.IAPDs {
			for _, h := range hs {
				addr := net.ParseIP(strings.Split(h, "/")[0])
				if addr == nil || again[addr.String()] {
					continue
				}
				kept := s.ghost[op.Client][:0]
				for _, t := range s.ghost[op.Client] {
					if !net.ParseIP(strings.Split(t.prefix, "/")[0]).Equal(addr) {
						kept = append(kept, t)
					}
				}
				s.ghost[op.Client] = kept
			}
		}
	}
	if live {
		bitsAfter := len(s.hd.VerifDump().Bits)
		if len(holdBefore) > 0 && allRepeat && !isRelease && len(op.IAPDs) > 0 && bitsAfter != bitsBefore {
			s.violate("C09", "repeat-consumes-blocks", fmt.Sprintf("a repeat/renewal from client %s changed the number of allocated blocks %d -> %d", op.Client, bitsBefore, bitsAfter))
		}
		// every prefix delegated in this reply must be remembered for the client
		d := s.hd.VerifDump()
		rec := ""
		for _, l := range d.Leases {
			if strings.HasPrefix(l, hex.EncodeToString(duidOf(op.Client))+"=") {
				rec = l
			}
		}
		for _, pd := range pds {
			for _, rp := range pd.prefixes {
				if !strings.Contains(rec+",", rp.cidr+",") && !strings.Contains(rec, "="+rp.cidr) {
					s.violate("C09", "delegated-prefix-not-remembered", fmt.Sprintf("reply delegated %s to client %s but the server's record for the client is %q", rp.cidr, op.Client, rec))
				}
			}
		}
		if s.hd.VerifLocked() {
			s.violate("C08", "lock-left-held", "handler returned with its mutex held")
			s.violate("C09", "lock-left-held", "handler returned with its mutex held: no later renewal can be answered")
		}
		if len(pds) > 0 && len(pds[0].prefixes) > 0 {
			class += "/delegated"
		} else if len(pds) > 0 {
			class += "/noprefixavail"
		}
		if len(holdBefore) > 0 {
			class += "/returning-client"
		}
	}
	return strings.Join(obsParts, " ")
}

func keys(m map[string]bool) []string {
	var out []string
	for k := range m {
		out = append(out, k)
	}
	sort.Strings(out)
	return out
}

func pools(thorough bool) []Pool {
	ps := []Pool{{"2001:db8:0:10::/62", 64}, {"2001:db8:0:10::/63", 64}}
	if thorough {
		ps = append(ps, Pool{"2001:db8:0:10::/64", 66}, Pool{"2001:db8:0:10::/64", 64})
	}
	return ps
}

func describe(r *ev.Run) {
	r.Rule("E1: BFS to fixpoint over the real prefix plugin. Ops per client {A,B}(+C thorough): SOLICIT with one IA_PD carrying hint list in {none, ::/0, length-only (page, page-8, page+8), own 1st/2nd lease, other client's lease, highest free block (also with a longer length), out-of-pool, two free blocks, own+free, own1+own2, two ::/0}, no IA_PD, no client-id; IA_PD T1/T2 variants, RENEW/REQUEST/REBIND/RELEASE/CONFIRM/INFORMATION-REQUEST (for the last three only the safety clauses are asserted), own-address hints with a shorter/longer length, the same client through different relay agents, two/three IA_PDs, all leases aged by an hour / by two days; thorough adds a third client. Sweeps: one client with 1..12 prefixes; time gaps of 1 s .. 25 h between messages; six non-canonical spellings of the pool; every other option code in 3 payload shapes (irrelevant-option closure). State-dependent hints are resolved from the ghost. Requests are raw wire bytes parsed by the library. State key = handler records + bitmap (hook H4) + ghost of prefixes told per client. Class = message shape/outcome.")
	r.Assume("the plugin never reclaims a delegation (the statement says 'for as long as the server runs'); lifetimes compared one-sidedly against the harness clock; pools of 2-4 blocks; the exploration runs in a worker process so that a fatal error of the code under test is reported, not suffered")
}

func run(r *ev.Run, id string) {
	nclients := 2
	if !r.Quick() {
		nclients = 3
	}
	for _, p := range pools(!r.Quick()) {
		p := p
		nc := nclients
		if p.Page-62 >= 2 && nc > 2 && p.CIDR == "2001:db8:0:10::/62" {
			nc = 2 // 3 clients x 4 blocks is run on the 2-block pool only
		}
		res := explore.Explore(r, explore.Config[Op]{
			Name:        fmt.Sprintf("%s->/%d", p.CIDR, p.Page),
			New:         func() explore.Sys[Op] { return NewSys(r, id, p, nc, !r.Quick()) },
			CheckMerges: true,
			MaxStates:   200000,
			Deadline:    time.Now().Add(map[bool]time.Duration{true: 10 * time.Minute, false: 12 * time.Minute}[r.Quick()]),
		})
		r.Sample("graph", map[string]interface{}{"pool": p, "clients": nc, "states": res.States, "transitions": res.Transitions, "depth": res.Depth, "fixpoint": res.Fixpoint, "merge_checks": res.MergeChecks})
	}
	manyLeases(r, id)
	manyHints(r, id)
	longRun(r, id)
	quotaLeases(r, id)
	hintLifetimes(r, id)
	gaps(r, id)
	spelledPools(r, id)
	irrelevantOptions(r, id)
	if id == "C08" {
		runSched(r)
	}
}

// manyLeases: one client collects 1..12 prefixes (beyond what the graphs can hold) on a
// 32-block pool; after each acquisition a hint-less IA_PD and an exact renewal of the first
// and of the newest prefix run through all C08/C09 oracles.
// irrelevantOptions: what a client is delegated depends on its identifier and its IA_PDs.
// For every other option code in three payload shapes (placed before or after the IA_PDs) two
// clients solicit and renew with and without it on a fresh 4-block pool; all oracles of Apply
// stay on (same prefix again, disjoint across clients, every IA_PD answered).
func irrelevantOptions(r *ev.Run, id string) {
	p := Pool{"2001:db8:0:10::/62", 64}
	for i, x := range pkt.Extra6() {
		xd := hex.EncodeToString(x.Data)
		with := func(c string, msg byte, hs ...string) Op {
			return Op{Client: c, Msg: msg, XCode: int(x.Code), XData: xd, XFirst: i%2 == 0, IAPDs: [][]string{hs}}
		}
		if _, err := dhcpv6.FromBytes(buildReq(with("A", 1))); err != nil {
			// the codec rejects this payload for this option code: the server drops such a
			// datagram before any plugin sees it
			r.Add("irrelevant_option_variants_unparseable", 1)
			continue
		}
		s := NewSys(r, id, p, 2, false)
		hist := []Op{with("A", 1), {Client: "A", Msg: 1, IAPDs: [][]string{{}}}, with("B", 1), with("A", 5, "own1"), {Client: "B", Msg: 5, IAPDs: [][]string{{"own1"}}}, with("B", 3)}
		for _, op := range hist {
			s.Apply(s.concretize(op), true)
			if s.Terminal() {
				break
			}
		}
		r.Add("irrelevant_option_histories", 1)
	}
}

// spelledPools: the pool written in the configuration with host bits set, upper case or
// uncompressed: the pool is the network the spelling denotes, and every oracle of Apply holds
// while two clients fill it.
func spelledPools(r *ev.Run, id string) {
	for _, cidr := range []string{"2001:db8:0:13::5/62", "2001:db8:0:10::1/62", "2001:db8:0:11::/62", "2001:DB8:0:10:0:0:0:0/62", "2001:db8:0:12:ffff:ffff:ffff:ffff/62", "2001:db8:0:1::1/56"} {
		if _, err := prefix.Plugin.Setup6(cidr, "64"); err != nil {
			r.Eval("spelled-pool/rejected-at-setup") // refusing a spelling is a configuration matter
			continue
		}
		s := NewSys(r, id, Pool{cidr, 64}, 2, false)
		hist := []Op{
			{Client: "A", Msg: 1, IAPDs: [][]string{{}}},
			{Client: "B", Msg: 1, IAPDs: [][]string{{}}},
			{Client: "A", Msg: 5, IAPDs: [][]string{{"own1"}}},
			{Client: "B", Msg: 3, IAPDs: [][]string{{"free1"}}},
			{Client: "A", Msg: 3, IAPDs: [][]string{{"free1"}, {"len-page"}}},
			{Client: "B", Msg: 1, IAPDs: [][]string{{"len0", "len0"}}},
			{Client: "A", Msg: 5, IAPDs: [][]string{{}}},
			{Client: "B", Msg: 5, IAPDs: [][]string{{"own1"}, {}}},
		}
		for _, op := range hist {
			s.Apply(s.concretize(op), true)
			if s.Terminal() {
				break
			}
		}
		r.Add("spelled_pool_histories", 1)
	}
}

// gaps: the time between the messages of one client, from a second to beyond the lifetime:
// renewals and repeats return the same prefix with a lifetime not shorter than what remained,
// and every lifetime stays within (0, 3600].
func gaps(r *ev.Run, id string) {
	for _, gap := range []string{"1s", "10s", "1m", "29m", "30m", "31m", "59m", "59m59s", "60m1s", "61m", "2h", "25h"} {
		for _, second := range []Op{{Client: "A", Msg: 5, IAPDs: [][]string{{"own1"}}}, {Client: "A", Msg: 3, IAPDs: [][]string{{}}}, {Client: "A", Msg: 1, IAPDs: [][]string{{"len0"}}}} {
			s := NewSys(r, id, Pool{"2001:db8:0:10::/62", 64}, 2, false)
			hist := []Op{{Client: "A", Msg: 1, IAPDs: [][]string{{}}}, {Client: "B", Msg: 1, IAPDs: [][]string{{}}}, {Client: "-", Age: true, Dur: gap, IAPDs: [][]string{}}, second,
				{Client: "-", Age: true, Dur: gap, IAPDs: [][]string{}}, second, {Client: "B", Msg: 5, IAPDs: [][]string{{"own1"}, {}}}, {Client: "A", Msg: 1, IAPDs: [][]string{{"free1"}}}}
			for _, op := range hist {
				s.Apply(s.concretize(op), true)
				if s.Terminal() {
					break
				}
			}
			r.Add("gap_histories", 1)
		}
	}
}

// hintLifetimes: the lifetime fields a client writes into its IAPrefix hints (RFC 8415 allows
// it to state what it would like): whatever they are, the reply's lifetimes stay positive with
// preferred <= valid <= one hour, on all three reply paths (fresh allocation, exact renewal,
// known lease picked up by ::/0).
func hintLifetimes(r *ev.Run, id string) {
	for _, hl := range []string{"p0v1800", "p3000v600", "p100v200", "max"} {
		s := NewSys(r, id, Pool{"2001:db8:0:10::/62", 64}, 2, false)
		hist := []Op{
			{Client: "A", Msg: 1, HLife: hl, IAPDs: [][]string{{"free1"}}},
			{Client: "A", Msg: 5, HLife: hl, IAPDs: [][]string{{"own1"}}},
			{Client: "A", Msg: 3, HLife: hl, IAPDs: [][]string{{"len0"}}},
			{Client: "B", Msg: 1, HLife: hl, IAPDs: [][]string{{"len-page"}}},
			{Client: "B", Msg: 6, HLife: hl, IAPDs: [][]string{{"own1"}, {"free1"}}},
		}
		for _, op := range hist {
			s.Apply(s.concretize(op), true)
			if s.Terminal() {
				break
			}
		}
		r.Add("hint_lifetime_histories", 1)
	}
}

// quotaLeases: one client collects 1..40 prefixes on a 64-block pool (one new block per message,
// the first one renewed along the way); after every step another client asks without a hint and
// must never be given a block the first one holds.
func quotaLeases(r *ev.Run, id string) {
	s := NewSys(r, id, Pool{"2001:db8:0:40::/58", 64}, 2, false)
	for k := 0; k < 40 && !s.Terminal(); k++ {
		// the lowest free block each time (so that a block the server wrongly gives back is the
		// first one a hint-less request of another client finds)
		fb := s.freeBlocks()
		if len(fb) < 2 {
			break
		}
		p := s.blockPrefix(fb[0])
		s.Apply(Op{Client: "A", Msg: 3, IAPDs: [][]string{{p}}}, true)
		if k%4 == 3 && !s.Terminal() {
			if own, ok := s.resolve("A", "own1"); ok {
				if fb = s.freeBlocks(); len(fb) > 1 {
					s.Apply(Op{Client: "A", Msg: 5, IAPDs: [][]string{{own}, {s.blockPrefix(fb[0])}}}, true)
					k++
				}
			}
		}
		if k%5 == 4 && !s.Terminal() {
			// (several unspecified hints in one IA_PD ask for further prefixes: the other client
			// takes the lowest free blocks)
			s.Apply(Op{Client: "B", Msg: 1, IAPDs: [][]string{{"::/0", "::/0", "::/0"}}}, true)
		}
	}
	r.Add("quota_sweeps", 1)
}

// longRun: thousands of messages on one handler (bookkeeping that runs "every n-th message"):
// two clients get prefixes, the leases run out, one client renews 4200 times, a third client
// arrives; then the first client comes back: same prefix, disjoint from the others.
func longRun(r *ev.Run, id string) {
	s := NewSys(r, id, Pool{"2001:db8:0:40::/58", 64}, 3, false)
	for _, op := range []Op{{Client: "A", Msg: 1, IAPDs: [][]string{{}}}, {Client: "B", Msg: 1, IAPDs: [][]string{{}}}, {Client: "-", Age: true, IAPDs: [][]string{}}} {
		s.Apply(s.concretize(op), true)
	}
	renew := s.concretize(Op{Client: "B", Msg: 5, IAPDs: [][]string{{"own1"}}})
	renew.Repeat = 4200
	s.Apply(renew, true)
	if !s.Terminal() {
		// ... and past a 16-bit count of IA_PDs handled since A was last served
		renew.Repeat = 65535 - 4200
		s.Apply(renew, true)
	}
	for _, op := range []Op{{Client: "C", Msg: 1, IAPDs: [][]string{{"::/0", "::/0"}}}, {Client: "A", Msg: 5, IAPDs: [][]string{{"own1"}}}, {Client: "A", Msg: 3, IAPDs: [][]string{{}}}, {Client: "C", Msg: 1, IAPDs: [][]string{{"::/0", "::/0", "::/0"}}}} {
		if s.Terminal() {
			break
		}
		s.Apply(s.concretize(op), true)
	}
	r.Add("long_run_messages", 65545)
	// a client's hint-less renewal after exactly k IA_PDs of other clients were handled, for k
	// around 2^16 (a 16-bit count of handled IA_PDs comes round to the same value)
	for k := 65533; k <= 65538; k++ {
		s := NewSys(r, id, Pool{"2001:db8:0:40::/58", 64}, 3, false)
		s.Apply(s.concretize(Op{Client: "A", Msg: 1, IAPDs: [][]string{{}}}), true)
		s.Apply(s.concretize(Op{Client: "B", Msg: 1, IAPDs: [][]string{{}}}), true)
		renew := s.concretize(Op{Client: "B", Msg: 5, IAPDs: [][]string{{"own1"}}})
		renew.Repeat = k - 1
		s.Apply(renew, true)
		for _, op := range []Op{{Client: "A", Msg: 5, IAPDs: [][]string{{}}}, {Client: "A", Msg: 5, IAPDs: [][]string{{}}}, {Client: "A", Msg: 5, IAPDs: [][]string{{"own1"}}}} {
			if s.Terminal() {
				break
			}
			s.Apply(s.concretize(op), true)
		}
		r.Add("long_run_messages", int64(k+4))
	}
}

func manyLeases(r *ev.Run, id string) {
	s := NewSys(r, id, Pool{"2001:db8:0:20::/59", 64}, 1, false)
	first := ""
	for k := 0; k < 12; k++ {
		p := s.blockPrefix(int64(31 - 2*k))
		if k == 0 {
			first = p
		}
		s.Apply(Op{Client: "A", Msg: 1, IAPDs: [][]string{{p}}}, true)
		s.Apply(Op{Client: "A", Msg: 5, IAPDs: [][]string{{}}}, true)
		s.Apply(Op{Client: "A", Msg: 5, IAPDs: [][]string{{first}}}, true)
		s.Apply(Op{Client: "A", Msg: 5, IAPDs: [][]string{{p}, {"::/0"}}}, true)
		if s.dead || s.broken {
			break
		}
	}
	r.Add("many_leases_sweeps", 1)
}

// manyHints: one IA_PD carrying 60..70 hints (more than a machine word of them), obtained in
// one message and then renewed exactly, twice, on a 128-block pool.
func manyHints(r *ev.Run, id string) {
	for _, n := range []int{63, 64, 65, 70} {
		s := NewSys(r, id, Pool{"2001:db8:0:80::/57", 64}, 1, false)
		var hints []string
		for k := 0; k < n; k++ {
			hints = append(hints, s.blockPrefix(int64(k)))
		}
		s.Apply(Op{Client: "A", Msg: 1, IAPDs: [][]string{hints}}, true)
		s.Apply(Op{Client: "A", Msg: 5, IAPDs: [][]string{hints}}, true)
		s.Apply(Op{Client: "A", Msg: 5, IAPDs: [][]string{hints}}, true)
		s.Apply(Op{Client: "A", Msg: 5, IAPDs: [][]string{{hints[n-1]}}}, true)
		s.Apply(Op{Client: "B", Msg: 1, IAPDs: [][]string{{}}}, true)
	}
	r.Add("many_hints_sweeps", 4)
}

var runSched = c16.SchedPart("C08", 6)

// Replay re-runs a stored history for the property named id.
func Replay(r *ev.Run, id string, raw json.RawMessage) { replayCase(r, id, raw) }

func replayCase(r *ev.Run, id string, raw json.RawMessage) {
	var sc struct {
		Scenario string `json:"scenario"`
		Schedule []int  `json:"schedule"`
	}
	if json.Unmarshal(raw, &sc) == nil && sc.Scenario != "" {
		c16.ReplaySchedule(r, id, sc.Scenario, sc.Schedule)
		return
	}
	var c Case
	if err := json.Unmarshal(raw, &c); err != nil {
		r.Violate(id+"/replay/bad-file", err.Error(), nil)
		return
	}
	s := NewSys(r, id, c.Pool, 3, true)
	for i, op := range c.Hist {
		obs := s.Apply(op, true)
		b, _ := json.Marshal(op)
		fmt.Printf("  step %d: %s\n     -> %s\n     state %s\n", i, b, obs, s.Key())
	}
}

// Crash explores the same graphs for property id (C01): only crashes (panic, mutex left held,
// non-termination through the operation watchdog) are verdicts; the search is cut at budget.
func Crash(r *ev.Run, id string, budget time.Duration, small bool) {
	dl := time.Now().Add(budget)
	ps := pools(false)
	if small {
		ps = ps[1:] // the 2-block pool only
	}
	for _, p := range ps {
		p := p
		res := explore.Explore(r, explore.Config[Op]{
			Name:      fmt.Sprintf("prefix %s->/%d", p.CIDR, p.Page),
			New:       func() explore.Sys[Op] { return NewSys(r, id, p, 2, false) },
			MaxStates: 200000,
			Deadline:  dl,
		})
		r.Sample("history-graph", map[string]interface{}{"plugin": "prefix", "pool": p, "clients": 2, "states": res.States, "transitions": res.Transitions, "depth": res.Depth, "fixpoint": res.Fixpoint})
	}
}
