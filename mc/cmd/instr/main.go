// instr generates, from the current working tree of the repository, the overlay used by the
// scheduler-based checks: "sync" is re-pointed at verifmc/verifsched, every go statement goes
// through verifsched.Go and a verifsched.Yield() is inserted before every statement.
package main

import (
	"bytes"
	"encoding/json"
	"flag"
	"fmt"
	"go/ast"
	"go/format"
	"go/parser"
	"go/printer"
	"go/token"
	"os"
	"path/filepath"
	"strconv"
	"strings"
)

var dirs = []string{"server", "plugins/range", "plugins/prefix", "plugins/file", "plugins/allocators/bitmap"}

const shim = "verifmc/verifsched"

func yield() ast.Stmt {
	return &ast.ExprStmt{X: &ast.CallExpr{Fun: &ast.SelectorExpr{X: ast.NewIdent("verifsched"), Sel: ast.NewIdent("Yield")}}}
}

var tmpSeq int

// unmodelled lists uses of runtime timers in the instrumented files.
var unmodelled []string

func goStmt(g *ast.GoStmt) ast.Stmt {
	call := g.Call
	if fl, ok := call.Fun.(*ast.FuncLit); ok && len(call.Args) == 0 {
		return &ast.ExprStmt{X: &ast.CallExpr{Fun: &ast.SelectorExpr{X: ast.NewIdent("verifsched"), Sel: ast.NewIdent("Go")}, Args: []ast.Expr{fl}}}
	}
	var lhs, args []ast.Expr
	for range call.Args {
		tmpSeq++
		id := ast.NewIdent(fmt.Sprintf("verifArg%d", tmpSeq))
		lhs = append(lhs, id)
		args = append(args, ast.NewIdent(id.Name))
	}
	var stmts []ast.Stmt
	if len(lhs) > 0 {
		stmts = append(stmts, &ast.AssignStmt{Lhs: lhs, Tok: token.DEFINE, Rhs: call.Args})
	}
	inner := &ast.CallExpr{Fun: call.Fun, Args: args, Ellipsis: call.Ellipsis}
	if call.Ellipsis != token.NoPos {
		inner.Ellipsis = 1
	}
	fl := &ast.FuncLit{Type: &ast.FuncType{Params: &ast.FieldList{}}, Body: &ast.BlockStmt{List: []ast.Stmt{&ast.ExprStmt{X: inner}}}}
	stmts = append(stmts, &ast.ExprStmt{X: &ast.CallExpr{Fun: &ast.SelectorExpr{X: ast.NewIdent("verifsched"), Sel: ast.NewIdent("Go")}, Args: []ast.Expr{fl}}})
	return &ast.BlockStmt{List: stmts}
}

func rewriteList(list []ast.Stmt, n *int) []ast.Stmt {
	out := make([]ast.Stmt, 0, 2*len(list))
	for _, st := range list {
		if g, ok := st.(*ast.GoStmt); ok {
			st = goStmt(g)
		}
		if l, ok := st.(*ast.LabeledStmt); ok {
			if g, ok := l.Stmt.(*ast.GoStmt); ok {
				l.Stmt = goStmt(g)
			}
		}
		out = append(out, yield(), st)
		*n++
	}
	return out
}

func instrument(src []byte, name string) ([]byte, int, error) {
	fset := token.NewFileSet()
	af, err := parser.ParseFile(fset, name, src, parser.ParseComments)
	if err != nil {
		return nil, 0, err
	}
	// keep build constraints, drop all other comments (inserted statements have no position)
	var header []string
	for _, cg := range af.Comments {
		if cg.End() < af.Package {
			for _, c := range cg.List {
				if strings.HasPrefix(c.Text, "//go:build") || strings.HasPrefix(c.Text, "// +build") {
					header = append(header, c.Text)
				}
			}
		}
	}
	af.Comments = nil
	af.Doc = nil
	n := 0
	skip := map[*ast.BlockStmt]bool{} // bodies of switch/select hold clauses, not statements
	ast.Inspect(af, func(node ast.Node) bool {
		switch x := node.(type) {
		case *ast.SwitchStmt:
			skip[x.Body] = true
		case *ast.TypeSwitchStmt:
			skip[x.Body] = true
		case *ast.SelectStmt:
			skip[x.Body] = true
		case *ast.BlockStmt:
			if !skip[x] {
				x.List = rewriteList(x.List, &n)
			}
		case *ast.CaseClause:
			x.Body = rewriteList(x.Body, &n)
		case *ast.CommClause:
			x.Body = rewriteList(x.Body, &n)
		case *ast.GenDecl:
			x.Doc = nil
		case *ast.FuncDecl:
			x.Doc = nil
		}
		return true
	})
	// the clock is a seam of the scheduler: time.Now -> verifsched.Now (real time plus the
	// virtual time that passed while threads of the controlled run waited for locks)
	timeName := ""
	for _, imp := range af.Imports {
		if p, _ := strconv.Unquote(imp.Path.Value); p == "time" {
			timeName = "time"
			if imp.Name != nil {
				timeName = imp.Name.Name
			}
		}
	}
	clockReads := 0
	if timeName != "" && timeName != "_" && timeName != "." {
		ast.Inspect(af, func(node ast.Node) bool {
			if sel, ok := node.(*ast.SelectorExpr); ok {
				if id, ok := sel.X.(*ast.Ident); ok && id.Name == timeName && id.Obj == nil {
					switch sel.Sel.Name {
					case "AfterFunc", "Timer":
						// modelled: the callback is a thread of the controlled run, enabled from the
						// moment the virtual clock reaches the deadline (a Timer with a channel,
						// from NewTimer, is reported below and would not compile against the shim)
						id.Name = "verifsched"
						clockReads++
					case "NewTimer", "NewTicker", "Tick", "After", "Sleep":
						// runtime timers are a source of nondeterminism the scheduler does not own
						unmodelled = append(unmodelled, fmt.Sprintf("time.%s at %s:%d", sel.Sel.Name, name, fset.Position(sel.Pos()).Line))
					}
				}
			}
			if sel, ok := node.(*ast.SelectorExpr); ok {
				if id, ok := sel.X.(*ast.Ident); ok && id.Name == timeName && id.Obj == nil && (sel.Sel.Name == "Now" || sel.Sel.Name == "Until" || sel.Sel.Name == "Since") {
					id.Name = "verifsched"
					clockReads++
				}
			}
			return true
		})
		if clockReads > 0 {
			// keep the import of time used
			af.Decls = append(af.Decls, &ast.GenDecl{Tok: token.VAR, Specs: []ast.Spec{&ast.ValueSpec{
				Names: []*ast.Ident{ast.NewIdent("_")}, Values: []ast.Expr{&ast.SelectorExpr{X: ast.NewIdent(timeName), Sel: ast.NewIdent("Second")}}}}})
		}
	}
	usesSync := false
	for _, imp := range af.Imports {
		if p, _ := strconv.Unquote(imp.Path.Value); p == "sync" {
			imp.Path.Value = strconv.Quote(shim)
			if imp.Name == nil {
				imp.Name = ast.NewIdent("sync")
			}
			usesSync = true
		}
	}
	if n > 0 || clockReads > 0 {
		spec := &ast.ImportSpec{Name: ast.NewIdent("verifsched"), Path: &ast.BasicLit{Kind: token.STRING, Value: strconv.Quote(shim)}}
		decl := &ast.GenDecl{Tok: token.IMPORT, Specs: []ast.Spec{spec}}
		af.Decls = append([]ast.Decl{decl}, af.Decls...)
		af.Imports = append(af.Imports, spec)
	}
	_ = usesSync
	var buf bytes.Buffer
	for _, h := range header {
		buf.WriteString(h + "\n")
	}
	if len(header) > 0 {
		buf.WriteString("\n")
	}
	if err := (&printer.Config{Mode: printer.RawFormat, Tabwidth: 8}).Fprint(&buf, fset, af); err != nil {
		return nil, 0, err
	}
	if os.Getenv("INSTR_DEBUG") != "" {
		os.WriteFile("/dev/shm/instr-debug-"+filepath.Base(name), buf.Bytes(), 0o644)
	}
	res, err := format.Source(buf.Bytes())
	if err != nil {
		return nil, 0, fmt.Errorf("instrumented source does not parse: %v", err)
	}
	return res, n, nil
}

func main() {
	repo := flag.String("repo", "/repo", "repository root")
	out := flag.String("out", "", "output directory")
	flag.Parse()
	if *out == "" {
		fmt.Fprintln(os.Stderr, "need -out")
		os.Exit(2)
	}
	replace := map[string]string{}
	total := 0
	// further packages for a particular check (comma separated)
	if x := os.Getenv("VERIF_INSTR_EXTRA"); x != "" {
		dirs = append(dirs, strings.Split(x, ",")...)
	}
	for _, d := range dirs {
		files, _ := filepath.Glob(filepath.Join(*repo, d, "*.go"))
		for _, f := range files {
			base := filepath.Base(f)
			if strings.HasSuffix(base, "_test.go") || strings.HasPrefix(base, "verif_") {
				continue
			}
			src, err := os.ReadFile(f)
			if err != nil {
				fmt.Fprintln(os.Stderr, err)
				os.Exit(2)
			}
			res, n, err := instrument(src, f)
			if err != nil {
				fmt.Fprintf(os.Stderr, "instr: %s: %v\n", f, err)
				os.Exit(2)
			}
			dst := filepath.Join(*out, d, base)
			os.MkdirAll(filepath.Dir(dst), 0o755)
			if err := os.WriteFile(dst, res, 0o644); err != nil {
				fmt.Fprintln(os.Stderr, err)
				os.Exit(2)
			}
			replace[f] = dst
			total += n
		}
	}
	b, _ := json.MarshalIndent(map[string]interface{}{"Replace": replace}, "", " ")
	if err := os.WriteFile(filepath.Join(*out, "overlay.json"), b, 0o644); err != nil {
		fmt.Fprintln(os.Stderr, err)
		os.Exit(2)
	}
	if err := os.WriteFile(filepath.Join(*out, "unmodelled.txt"), []byte(strings.Join(unmodelled, "\n")), 0o644); err != nil {
		fmt.Fprintln(os.Stderr, err)
		os.Exit(2)
	}
	for _, u := range unmodelled {
		fmt.Println("instr: not under the scheduler's control:", u)
	}
	fmt.Printf("instr: %d files, %d yield points\n", len(replace), total)
}
