package main

import (
	_ "verifmc/checks/c20"
)
