package main

import (
	_ "verifmc/checks/alloc"
	_ "verifmc/checks/c01"
	_ "verifmc/checks/c10"
	_ "verifmc/checks/c11"
	_ "verifmc/checks/c12"
	_ "verifmc/checks/c13"
	_ "verifmc/checks/c14"
	_ "verifmc/checks/c15"
	_ "verifmc/checks/c16"
	_ "verifmc/checks/c18"
	_ "verifmc/checks/c20"
	_ "verifmc/checks/lease"
	_ "verifmc/checks/optplug"
	_ "verifmc/checks/pd"
)
