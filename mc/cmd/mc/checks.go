package main

import (
	_ "verifmc/checks/alloc"
	_ "verifmc/checks/c20"
)
