// mc is the single entry binary for all checks: mc -check C20 -tier quick [-replay file]
package main

import (
	"encoding/json"
	"flag"
	"fmt"
	"os"

	"verifmc/ev"
	"verifmc/reg"
)

func main() {
	id := flag.String("check", "", "property id")
	tier := flag.String("tier", "quick", "quick|thorough")
	replay := flag.String("replay", "", "replay file")
	worker := flag.Bool("worker", false, "internal: run as worker")
	flag.Parse()
	if t := os.Getenv("VERIF_TIER"); t == "quick" || t == "thorough" {
		*tier = t
	}
	c, ok := reg.Checks[*id]
	if !ok {
		fmt.Fprintf(os.Stderr, "unknown check %q\n", *id)
		os.Exit(2)
	}
	if *worker {
		reg.Tier = *tier
		os.Exit(c.Worker(flag.Args()))
	}
	r := ev.New(c.ID, *tier, c.Level)
	if *replay != "" {
		b, err := os.ReadFile(*replay)
		if err != nil {
			fmt.Fprintln(os.Stderr, err)
			os.Exit(2)
		}
		var f struct {
			Case json.RawMessage `json:"case"`
		}
		if err := json.Unmarshal(b, &f); err != nil {
			fmt.Fprintln(os.Stderr, err)
			os.Exit(2)
		}
		r.Replaying = true
		if c.Replay == nil {
			fmt.Fprintln(os.Stderr, "check has no replay")
			os.Exit(2)
		}
		c.Replay(r, f.Case)
		os.Exit(r.Finish())
	}
	c.Run(r)
	os.Exit(r.Finish())
}
