package main

// cross-check wiring that would otherwise create import cycles
import (
	"verifmc/checks/c11"
	"verifmc/checks/c16"
)

func init() { c11.SetSchedPart(c16.SchedBuffers("C11")) }
