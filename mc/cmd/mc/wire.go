package main

// cross-check wiring that would otherwise create import cycles
import (
	"verifmc/checks/c10"
	"verifmc/checks/c11"
	"verifmc/checks/c16"
)

func init() {
	c11.SetSchedPart(c16.SchedBuffers("C11"))
	c16.SetRefreshDeadlock(c10.RefreshDeadlock)
}
