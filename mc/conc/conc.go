// Package conc builds the concurrent scenarios shared by C16 (and the scheduler parts of C02,
// C08): k datagrams pushed through the real Serve loop (bufpool.Get -> ReadFrom -> go
// HandleMsgN) of a socket-less listener around full plugin chains, under engine E2, with the
// same bodies reusable free-running for the -race pass (E4).
package conc

import (
	"bytes"
	"encoding/binary"
	"fmt"
	"net"
	"os"
	"path/filepath"
	"sort"
	"strings"
	"sync"
	"sync/atomic"
	"time"

	"github.com/coredhcp/coredhcp/handler"
	"github.com/coredhcp/coredhcp/plugins/dns"
	"github.com/coredhcp/coredhcp/plugins/file"
	"github.com/coredhcp/coredhcp/plugins/prefix"
	rangeplugin "github.com/coredhcp/coredhcp/plugins/range"
	"github.com/coredhcp/coredhcp/plugins/serverid"
	"github.com/coredhcp/coredhcp/server"
	"github.com/insomniacslk/dhcp/dhcpv6"

	"verifmc/pkt"
	"verifmc/sched"
	"verifmc/srv"
	"verifmc/verifsched"
)

// Spec describes one scenario declaratively so that it can be named in replay files.
type Spec struct {
	Name    string
	Proto   int
	Dgrams  [][]byte // datagrams fed to Serve, in arrival order
	Prefill int      // v4: clients bound before; v6: blocks delegated before
	Blocks  int      // v4: addresses in the range; v6: blocks in the pool (power of two)
	Reload  bool     // a thread reloads the static lease file (good -> good') meanwhile
	Static  bool     // the datagrams are from the statically configured client
	Oob     []int    // receiving interface index per datagram (absent: 1; 0: no control message)
	// ClockBy of (virtual) time passes once the first ClockAfter datagrams have been answered
	// and before the next one is received
	ClockAfter int
	ClockBy    time.Duration
}

func (sp Spec) oob(k int) int {
	if k < len(sp.Oob) {
		return sp.Oob[k]
	}
	return 1
}

// Unicast4 clears the broadcast flag of a DHCPv4 datagram: the reply to a client without an
// address then goes out as a layer 2 unicast frame on the receiving interface.
func Unicast4(d []byte) []byte {
	d = append([]byte{}, d...)
	d[10], d[11] = 0, 0
	return d
}

var (
	onceGlobals  sync.Once
	h4sid, h4dns handler.Handler4
	h6sid, h6dns handler.Handler6
	seq          atomic.Int64
)

var ownDUID = []byte{0, 3, 0, 1, 0, 0xde, 0xad, 0xbe, 0xef, 0}

// StaticMAC is the client listed in the static lease files.
var StaticMAC = []byte{0x02, 0, 0, 0, 0x5a, 0x01}

func globals() {
	onceGlobals.Do(func() {
		var err error
		if h4sid, err = serverid.Plugin.Setup4("192.0.2.1"); err != nil {
			panic(err)
		}
		if h4dns, err = dns.Plugin.Setup4("192.0.2.53"); err != nil {
			panic(err)
		}
		if h6sid, err = serverid.Plugin.Setup6("LL", "00:de:ad:be:ef:00"); err != nil {
			panic(err)
		}
		if h6dns, err = dns.Plugin.Setup6("2001:db8::53"); err != nil {
			panic(err)
		}
	})
}

func staticFile(proto int, variant string) string {
	f := filepath.Join(srv.Scratch(), fmt.Sprintf("conc-static%d.txt", proto))
	mac := net.HardwareAddr(StaticMAC).String()
	ip := map[string]string{"4good": "10.9.0.1", "4good2": "10.9.0.2", "6good": "2001:db8:9::1", "6good2": "2001:db8:9::2"}[fmt.Sprint(proto)+variant]
	os.WriteFile(f, []byte(mac+" "+ip+"\n"), 0o644)
	return f
}

// env is one fresh instance of a chain.
type env struct {
	spec    Spec
	hs4     []handler.Handler4
	hs6     []handler.Handler6
	rng     *rangeplugin.PluginState
	pd      *prefix.Handler
	db      string
	mu      sync.Mutex
	sent    []server.VerifSent
	sentAt  []time.Duration // virtual time of the controlled run at which each reply was sent
	early   verifsched.WaitGroup
	fpath   string
	release func()
}

func rangeEnd(n int) string {
	ip := make(net.IP, 4)
	binary.BigEndian.PutUint32(ip, 0x0a00000a+uint32(n)-1)
	return ip.String()
}

func poolCIDR(n int) string {
	bits := 0
	for 1<<uint(bits) < n {
		bits++
	}
	return fmt.Sprintf("2001:db8:0:10::/%d", 64-bits)
}

func newEnv(sp Spec) *env {
	globals()
	e := &env{spec: sp}
	e.fpath = staticFile(sp.Proto, "good")
	if sp.Proto == 4 {
		hf, err := file.Plugin.Setup4(e.fpath)
		if err != nil {
			panic(err)
		}
		e.db = filepath.Join(srv.Scratch(), fmt.Sprintf("conc-%d.sqlite", seq.Add(1)))
		hr, err := rangeplugin.Plugin.Setup4(e.db, "10.0.0.10", rangeEnd(sp.Blocks), "60s")
		if err != nil {
			panic(err)
		}
		e.rng = rangeplugin.VerifInstance(e.db)
		rangeplugin.VerifForget(e.db)
		e.hs4 = []handler.Handler4{h4sid, hf, hr, h4dns}
		for i := 0; i < sp.Prefill && !e.locked(); i++ {
			srv.Run4(net.Interface{}, e.hs4, Discover4([]byte{2, 0xff, 0, 0, 0, byte(i)}, uint32(0xff00+i), nil), 1, nil)
		}
	} else {
		hf, err := file.Plugin.Setup6(e.fpath)
		if err != nil {
			panic(err)
		}
		hp, err := prefix.Plugin.Setup6(poolCIDR(sp.Blocks), "64")
		if err != nil {
			panic(err)
		}
		srv.PrefixGate.Lock()
		e.pd = prefix.VerifCapture(func() {
			req, _ := dhcpv6.FromBytes((pkt.Msg6{Type: 1}).Bytes())
			hp(req, &dhcpv6.Message{MessageType: dhcpv6.MessageTypeAdvertise})
		})
		srv.PrefixGate.Unlock()
		e.hs6 = []handler.Handler6{h6sid, hf, hp, h6dns}
		for i := 0; i < sp.Prefill && !e.locked(); i++ {
			srv.Run6(net.Interface{}, e.hs6, Solicit6([]byte{2, 0xff, 0, 0, 0, byte(i)}, [3]byte{0xff, 0, byte(i)}, true, false, ""), 1, &net.UDPAddr{IP: net.ParseIP("2001:db8::99"), Port: 546})
		}
	}
	return e
}

func (e *env) locked() bool {
	return (e.rng != nil && e.rng.VerifLocked()) || (e.pd != nil && e.pd.VerifLocked())
}

func (e *env) close() {
	if e.release != nil {
		e.release()
	}
	if e.rng != nil {
		e.rng.VerifClose()
		os.Remove(e.db)
		os.Remove(e.db + "-journal")
	}
}

func (e *env) onSent(s server.VerifSent) {
	e.mu.Lock()
	e.sent = append(e.sent, s)
	e.sentAt = append(e.sentAt, verifsched.VOffset())
	n := len(e.sent)
	e.mu.Unlock()
	if e.spec.ClockBy > 0 && n <= e.spec.ClockAfter {
		e.early.Done()
	}
}

// stateKey is the canonical final state of the lease plugin of the chain.
func (e *env) stateKey() string {
	return e.leaseKey() + e.tableKey()
}

// tableKey is the static lease table in force (only where a reload takes part).
func (e *env) tableKey() string {
	if !e.spec.Reload {
		return ""
	}
	t := file.VerifTable()
	var ks []string
	for k, v := range t {
		ks = append(ks, k+"="+v)
	}
	sort.Strings(ks)
	return fmt.Sprintf(" static=%v", ks)
}

func (e *env) leaseKey() string {
	if e.rng != nil {
		d := e.rng.VerifDump()
		var recs []string
		for _, r := range d.Records {
			if !strings.HasPrefix(r, "02:ff:") {
				recs = append(recs, r)
			}
		}
		return fmt.Sprintf("recs=%v nbits=%d", recs, len(d.Bits))
	}
	d := e.pd.VerifDump()
	var ls []string
	for _, l := range d.Leases {
		if !strings.Contains(l, "02ff") {
			// record order within a client only shows as option order in later replies
			kv := strings.SplitN(l, "=", 2)
			ps := strings.Split(kv[1], ",")
			sort.Strings(ps)
			ls = append(ls, kv[0]+"="+strings.Join(ps, ","))
		}
	}
	return fmt.Sprintf("leases=%v nbits=%d", ls, len(d.Bits))
}

// ---- datagram builders ----

// Discover4 builds a broadcast-flag DISCOVER (or REQUEST when req) with a client identifier
// derived from the hardware address, so that replies are attributable.
func msg4(mac []byte, xid uint32, mt byte, prl []byte) []byte {
	p := pkt.V4{Op: 1, HType: 1, HLen: byte(len(mac)), Xid: xid, Flags: 0x8000}
	copy(p.CHAddr[:], mac)
	p.Opts = []pkt.Opt4{{Code: 53, Data: []byte{mt}}, {Code: 61, Data: append([]byte{1}, mac...)}, {Code: 12, Data: []byte(fmt.Sprintf("host-%x", mac))}}
	if prl != nil {
		p.Opts = append(p.Opts, pkt.Opt4{Code: 55, Data: prl})
	}
	return p.Bytes()
}

func Discover4(mac []byte, xid uint32, prl []byte) []byte { return msg4(mac, xid, 1, prl) }
func Request4(mac []byte, xid uint32, prl []byte) []byte  { return msg4(mac, xid, 3, prl) }

// Solicit6 builds a SOLICIT (rapid=false) carrying an IA_PD (optionally with a hint) and/or IA_NA.
func Solicit6(mac []byte, xid [3]byte, iapd, iana bool, hint string) []byte {
	m := pkt.Msg6{Type: 1, Xid: xid}
	m.Opts = append(m.Opts, pkt.Opt6{Code: 1, Data: append([]byte{0, 3, 0, 1}, mac...)})
	m.Opts = append(m.Opts, pkt.Opt6{Code: 6, Data: []byte{0, 23}})
	if iana {
		m.Opts = append(m.Opts, pkt.Opt6{Code: 3, Data: []byte{0, 0, 0, 9, 0, 0, 0, 0, 0, 0, 0, 0}})
	}
	if iapd {
		d := []byte{0, 0, 0, 7, 0, 0, 0, 0, 0, 0, 0, 0}
		if hint != "" {
			ip, ipn, _ := net.ParseCIDR(hint)
			l, _ := ipn.Mask.Size()
			d = append(d, pkt.EncOpts6([]pkt.Opt6{{Code: 26, Data: append([]byte{0, 0, 0, 0, 0, 0, 0, 0, byte(l)}, ip.To16()...)}})...)
		}
		m.Opts = append(m.Opts, pkt.Opt6{Code: 25, Data: d})
	}
	return m.Bytes()
}

// noEnd drops the END option: the datagram is unparseable and must never be answered, no
// matter what an earlier datagram left behind in a recycled receive buffer.
func noEnd(d []byte) []byte { return d[:len(d)-1] }

// Relayed6 wraps a client message in one Relay-Forward layer of the given relay agent.
func Relayed6(inner []byte, link, peer, ifid string) []byte {
	l := pkt.Relay6{Type: 12, Inner: inner, Opts: []pkt.Opt6{{Code: 18, Data: []byte(ifid)}}}
	copy(l.Link[:], net.ParseIP(link).To16())
	copy(l.Peer[:], net.ParseIP(peer).To16())
	return l.Bytes()
}

// Solicit6x builds a SOLICIT with two IA_PDs (hint "" = none).
func Solicit6x(mac []byte, xid [3]byte, hint1, hint2 string) []byte {
	return Msg6x(1, mac, xid, hint1, hint2)
}

// Msg6x is Solicit6x with another message type (the lease plugin treats the IA_PDs of every
// message type it is handed alike).
func Msg6x(mtype byte, mac []byte, xid [3]byte, hint1, hint2 string) []byte {
	m := pkt.Msg6{Type: mtype, Xid: xid}
	m.Opts = append(m.Opts, pkt.Opt6{Code: 1, Data: append([]byte{0, 3, 0, 1}, mac...)})
	for i, h := range []string{hint1, hint2} {
		d := []byte{0, 0, 0, byte(7 + i), 0, 0, 0, 0, 0, 0, 0, 0}
		if h != "" {
			ip, ipn, _ := net.ParseCIDR(h)
			l, _ := ipn.Mask.Size()
			d = append(d, pkt.EncOpts6([]pkt.Opt6{{Code: 26, Data: append([]byte{0, 0, 0, 0, 0, 0, 0, 0, byte(l)}, ip.To16()...)}})...)
		}
		m.Opts = append(m.Opts, pkt.Opt6{Code: 25, Data: d})
	}
	return m.Bytes()
}

// ---- reply summaries and per-reply oracles ----

func (e *env) summarise() (string, []sched.Viol) {
	if e.locked() {
		// dumping the state would block forever on the mutex that was left held
		return "LOCK-LEFT-HELD", []sched.Viol{{Sig: "lock-left-held", What: "the lease plugin's mutex is still held after all datagrams were handled: every later datagram blocks forever"}}
	}
	var viols []sched.Viol
	var parts []string
	byXid := map[string][]byte{}
	xid6 := func(d []byte) string {
		// the transaction id of a (possibly relayed) DHCPv6 datagram is that of the client message
		if p, err := pkt.Parse6(d); err == nil && p.Msg != nil {
			return fmt.Sprintf("%x", p.Msg.Xid)
		}
		if len(d) >= 4 {
			return fmt.Sprintf("%x", d[1:4])
		}
		return ""
	}
	for _, d := range e.spec.Dgrams {
		if e.spec.Proto == 4 {
			byXid[fmt.Sprintf("%x", d[4:8])] = d
		} else {
			byXid[xid6(d)] = d
		}
	}
	asked := map[string]int{} // requests per transaction id (a retransmission repeats it)
	for _, d := range e.spec.Dgrams {
		if e.spec.Proto == 4 && len(d) >= 8 {
			asked[fmt.Sprintf("%08x", d[4:8])]++
		} else if e.spec.Proto == 6 && len(d) >= 4 {
			asked[xid6(d)]++
		}
	}
	seen := map[string]int{}
	for _, s := range e.sent {
		if e.spec.Proto == 4 {
			rep, err := pkt.ParseV4(s.Data)
			if err != nil {
				viols = append(viols, sched.Viol{Sig: "reply-unparseable", What: err.Error()})
				continue
			}
			xid := fmt.Sprintf("%08x", rep.Xid)
			seen[xid]++
			reqB, ok := byXid[xid]
			if !ok {
				viols = append(viols, sched.Viol{Sig: "reply-to-nobody", What: "reply with transaction id " + xid + " which no request carried"})
				continue
			}
			req, _ := pkt.ParseV4(reqB)
			// the reply to datagram X must be the reply to datagram X (buffer recycling!)
			q61, _ := req.Get(61)
			p61, _ := rep.Get(61)
			if rep.CHAddr != req.CHAddr || !bytes.Equal(q61, p61) || rep.Op != 2 {
				viols = append(viols, sched.Viol{Sig: "reply-mixed-up", What: fmt.Sprintf("reply xid %s carries chaddr %x / client-id %x, its request had %x / %x", xid, rep.CHAddr[:6], p61, req.CHAddr[:6], q61)})
			}
			want := byte(2)
			if req.MsgType() == 3 {
				want = 5
			}
			if rep.MsgType() != int(want) {
				viols = append(viols, sched.Viol{Sig: "reply-type", What: fmt.Sprintf("reply xid %s has type %d, want %d", xid, rep.MsgType(), want)})
			}
			if d, n := rep.Get(54); n != 1 || !bytes.Equal(d, []byte{192, 0, 2, 1}) {
				viols = append(viols, sched.Viol{Sig: "reply-server-id", What: "reply without this server's identifier"})
			}
			parts = append(parts, fmt.Sprintf("%s:%x->%v", xid, req.CHAddr[:6], net.IP(rep.YI[:])))
		} else {
			rep, err := pkt.Parse6(s.Data)
			if err != nil || rep.Msg == nil {
				viols = append(viols, sched.Viol{Sig: "reply-unparseable", What: fmt.Sprint(err)})
				continue
			}
			xid := fmt.Sprintf("%x", rep.Msg.Xid)
			seen[xid]++
			reqB, ok := byXid[xid]
			if !ok {
				viols = append(viols, sched.Viol{Sig: "reply-to-nobody", What: "reply with transaction id " + xid + " which no request carried"})
				continue
			}
			req, _ := pkt.Parse6(reqB)
			// a relayed request is answered through the same relay layers (link-address,
			// peer-address, Interface-ID mirrored per layer) - its own, not another datagram's
			if len(req.Layers) != len(rep.Layers) {
				viols = append(viols, sched.Viol{Sig: "reply-relay-layers", What: fmt.Sprintf("reply xid %s has %d relay layers, its request %d", xid, len(rep.Layers), len(req.Layers))})
			} else {
				for li := range req.Layers {
					qi, _ := pkt.Get6(req.Layers[li].Opts, 18)
					pi, _ := pkt.Get6(rep.Layers[li].Opts, 18)
					if req.Layers[li].Link != rep.Layers[li].Link || req.Layers[li].Peer != rep.Layers[li].Peer || !bytes.Equal(qi, pi) {
						viols = append(viols, sched.Viol{Sig: "reply-mixed-up", What: fmt.Sprintf("reply xid %s, relay layer %d: link %v peer %v interface-id %q; its request had link %v peer %v interface-id %q", xid, li, net.IP(rep.Layers[li].Link[:]), net.IP(rep.Layers[li].Peer[:]), pi, net.IP(req.Layers[li].Link[:]), net.IP(req.Layers[li].Peer[:]), qi)})
					}
				}
			}
			qc, _ := pkt.Get6(req.Msg.Opts, 1)
			pc, _ := pkt.Get6(rep.Msg.Opts, 1)
			if !bytes.Equal(qc, pc) {
				viols = append(viols, sched.Viol{Sig: "reply-mixed-up", What: fmt.Sprintf("reply xid %s carries client-id %x, its request had %x", xid, pc, qc)})
			}
			if d, n := pkt.Get6(rep.Msg.Opts, 2); n != 1 || !bytes.Equal(d, ownDUID) {
				viols = append(viols, sched.Viol{Sig: "reply-server-id", What: "reply without this server's identifier"})
			}
			var got []string
			for _, o := range rep.Msg.Opts {
				if o.Code == 25 && len(o.Data) >= 12 {
					sub, _ := pkt.ParseOpts6(o.Data[12:])
					// the order of IAPrefix options inside one IA_PD carries no meaning: the
					// prefixes of each IA_PD are compared as a set
					start := len(got)
					defer func(start int) {}(start)
					got = append(got, fmt.Sprintf("ia%x{", o.Data[:4]))
					mark := len(got)
					for _, so := range sub {
						if so.Code == 26 && len(so.Data) >= 25 {
							if binary.BigEndian.Uint32(so.Data[4:]) == 0 || binary.BigEndian.Uint32(so.Data[4:]) > 3600 {
								viols = append(viols, sched.Viol{Sig: "lifetime", What: "delegated prefix with a valid lifetime outside (0,3600]"})
							}
							got = append(got, fmt.Sprintf("%s/%d", net.IP(so.Data[9:25]), so.Data[8]))
						}
						if so.Code == 13 && len(so.Data) >= 2 {
							got = append(got, fmt.Sprintf("status%d", binary.BigEndian.Uint16(so.Data)))
						}
					}
					sort.Strings(got[mark:])
					got = append(got, "}")
					_ = start
				}
				if o.Code == 3 && len(o.Data) >= 12 {
					sub, _ := pkt.ParseOpts6(o.Data[12:])
					if a, n := pkt.Get6(sub, 5); n > 0 && len(a) >= 16 {
						got = append(got, "na="+net.IP(a[:16]).String())
					}
				}
			}
			parts = append(parts, fmt.Sprintf("%s:%x->%v", xid, qc[4:], got))
		}
	}
	for x, n := range seen {
		if n > 1 && n > asked[x] {
			viols = append(viols, sched.Viol{Sig: "duplicate-reply", What: fmt.Sprintf("%d replies with transaction id %s", n, x)})
		}
	}
	viols = append(viols, e.promises()...)
	sort.Strings(parts)
	// cross-client disjointness in the final state (C02 / C08 keep holding)
	return strings.Join(parts, " ") + " | " + e.stateKey(), append(viols, e.disjoint()...)
}

// promises: an OFFER / ACK promises its address to the client for the lease time it carries;
// no other client may be answered with that address before the promise has run out (virtual
// time of the controlled run).
func (e *env) promises() []sched.Viol {
	if e.spec.Proto != 4 || len(e.sentAt) != len(e.sent) {
		return nil
	}
	type promise struct {
		who   string
		until time.Duration
	}
	last := map[string]promise{}
	var v []sched.Viol
	for i, s := range e.sent {
		rep, err := pkt.ParseV4(s.Data)
		if err != nil || (rep.MsgType() != 2 && rep.MsgType() != 5) || net.IP(rep.YI[:]).IsUnspecified() {
			continue
		}
		lease := time.Duration(0)
		for _, o := range rep.Opts {
			if o.Code == 51 && len(o.Data) == 4 {
				lease = time.Duration(binary.BigEndian.Uint32(o.Data)) * time.Second
			}
		}
		addr, who := net.IP(rep.YI[:]).String(), fmt.Sprintf("%x", rep.CHAddr[:6])
		if p, ok := last[addr]; ok && p.who != who && p.until > e.sentAt[i] {
			v = append(v, sched.Viol{Sig: "address-promised-twice", What: fmt.Sprintf("client %s is answered with %s at (virtual) time +%v although the server promised it to client %s until +%v", who, addr, e.sentAt[i], p.who, p.until)})
		}
		last[addr] = promise{who, e.sentAt[i] + lease}
	}
	return v
}

func (e *env) disjoint() []sched.Viol {
	var v []sched.Viol
	owner := map[string]string{}
	if e.rng != nil {
		for _, r := range e.rng.VerifDump().Records {
			kv := strings.SplitN(r, "=", 2)
			if o, dup := owner[kv[1]]; dup {
				v = append(v, sched.Viol{Sig: "address-bound-twice", What: fmt.Sprintf("address %s bound to both %s and %s", kv[1], o, kv[0])})
			}
			owner[kv[1]] = kv[0]
		}
		if d := e.rng.VerifDump(); len(d.Records) != len(d.Bits) {
			v = append(v, sched.Viol{Sig: "bindings-vs-bitmap", What: fmt.Sprintf("%d bindings but %d addresses marked allocated", len(d.Records), len(d.Bits))})
		}
		if e.rng.VerifLocked() {
			v = append(v, sched.Viol{Sig: "lock-left-held", What: "range plugin mutex still held after all datagrams were handled"})
		}
	}
	if e.pd != nil {
		n := 0
		for _, l := range e.pd.VerifDump().Leases {
			kv := strings.SplitN(l, "=", 2)
			for _, p := range strings.Split(kv[1], ",") {
				if p == "" {
					continue
				}
				n++
				if o, dup := owner[p]; dup {
					v = append(v, sched.Viol{Sig: "prefix-delegated-twice", What: fmt.Sprintf("prefix %s recorded for both %s and %s", p, o, kv[0])})
				}
				owner[p] = kv[0]
			}
		}
		if d := e.pd.VerifDump(); n != len(d.Bits) {
			v = append(v, sched.Viol{Sig: "leases-vs-bitmap", What: fmt.Sprintf("%d recorded leases but %d blocks marked allocated", n, len(d.Bits))})
		}
		if e.pd.VerifLocked() {
			v = append(v, sched.Viol{Sig: "lock-left-held", What: "prefix plugin mutex still held after all datagrams were handled"})
		}
	}
	return v
}

// ---- running ----

func (e *env) recv() func(b []byte) (int, int, *net.UDPAddr, bool) {
	i := 0
	peer := &net.UDPAddr{IP: net.IPv4(10, 9, 9, 9), Port: 68}
	if e.spec.Proto == 6 {
		peer = &net.UDPAddr{IP: net.ParseIP("2001:db8::99"), Port: 546}
	}
	return func(b []byte) (int, int, *net.UDPAddr, bool) {
		if i >= len(e.spec.Dgrams) {
			return 0, 0, nil, false
		}
		if e.spec.ClockBy > 0 && i == e.spec.ClockAfter {
			// time passes at a quiet moment: the earlier datagrams have been answered
			e.early.Wait()
			verifsched.Advance(e.spec.ClockBy)
		}
		d := e.spec.Dgrams[i]
		i++
		return copy(b, d), e.spec.oob(i - 1), peer, true
	}
}

func (e *env) serve() {
	if e.spec.ClockBy > 0 {
		e.early.Add(e.spec.ClockAfter)
	}
	io := &server.VerifIO{Sent: e.onSent, Recv: e.recv()}
	if e.spec.Proto == 4 {
		l := server.NewVerifListener4(net.Interface{}, e.hs4, io)
		e.release = l.Release // only once every handler goroutine is done
		l.Serve()
	} else {
		l := server.NewVerifListener6(net.Interface{}, e.hs6, io)
		e.release = l.Release
		l.Serve()
	}
}

func (e *env) reload() {
	staticFile(e.spec.Proto, "good2")
	file.VerifReload(e.spec.Proto == 6, e.fpath)
}

// Scenario turns a spec into an E2 scenario.
func (sp Spec) Scenario() sched.Scenario {
	return sched.Scenario{
		Name: sp.Name,
		Setup: func(run *verifsched.Run) func(*verifsched.Run) sched.Exec {
			e := newEnv(sp)
			run.Spawn("serve", e.serve)
			if sp.Reload {
				run.Spawn("reload", e.reload)
			}
			return func(run *verifsched.Run) sched.Exec {
				out, v := e.summarise()
				e.close()
				// an execution in which a timer of the code under test took part is judged by the
				// per-reply and state oracles only: the sequential reference runs outside the
				// scheduler, where those timers never come due
				return sched.Exec{Outcome: out, Violations: v, NoSerial: run.Timers > 0}
			}
		},
		Serial: func() map[string]string {
			out := map[string]string{}
			// all orders of the datagrams (and the reload event), one at a time
			n := len(sp.Dgrams)
			items := n
			if sp.Reload {
				items++
			}
			idx := make([]int, items)
			for i := range idx {
				idx[i] = i
			}
			if sp.ClockBy > 0 {
				idx = idx[sp.ClockAfter:] // the first ClockAfter datagrams come first, in order
			}
			permutations(idx, func(order []int) {
				e := newEnv(sp)
				if sp.ClockBy > 0 {
					var first []int
					for k := 0; k < sp.ClockAfter; k++ {
						first = append(first, k)
					}
					order = append(first, order...)
				}
				for pos, k := range order {
					if sp.ClockBy > 0 && pos == sp.ClockAfter {
						verifsched.AdvanceGlobal(sp.ClockBy)
						defer verifsched.AdvanceGlobal(-sp.ClockBy)
					}
					if e.locked() {
						// a previous datagram left the lease plugin's mutex held: the next one
						// would block forever (the per-execution oracle reports lock-left-held)
						break
					}
					if k == n {
						e.reload()
						continue
					}
					if sp.Proto == 4 {
						o := srv.Run4(net.Interface{}, e.hs4, sp.Dgrams[k], sp.oob(k), &net.UDPAddr{IP: net.IPv4(10, 9, 9, 9), Port: 68})
						e.sent = append(e.sent, o.Sent...)
					} else {
						o := srv.Run6(net.Interface{}, e.hs6, sp.Dgrams[k], sp.oob(k), &net.UDPAddr{IP: net.ParseIP("2001:db8::99"), Port: 546})
						e.sent = append(e.sent, o.Sent...)
					}
				}
				s, _ := e.summarise()
				e.close()
				out[s] = fmt.Sprint(order)
			})
			return out
		},
	}
}

func permutations(a []int, f func([]int)) {
	var rec func(k int)
	rec = func(k int) {
		if k == len(a) {
			f(append([]int{}, a...))
			return
		}
		for i := k; i < len(a); i++ {
			a[k], a[i] = a[i], a[k]
			rec(k + 1)
			a[k], a[i] = a[i], a[k]
		}
	}
	rec(0)
}

// FreeRun executes the scenario once with real goroutines (for the -race pass): the real
// Serve loop, real go statements, real sync. It waits for the expected number of replies.
func (sp Spec) FreeRun(expectReplies int) (string, bool) {
	if expectReplies < 0 {
		// as many replies as the datagrams get when handled one at a time in arrival order
		e := newEnv(sp)
		for _, d := range sp.Dgrams {
			if e.locked() {
				break
			}
			if sp.Proto == 4 {
				o := srv.Run4(net.Interface{}, e.hs4, d, 1, &net.UDPAddr{IP: net.IPv4(10, 9, 9, 9), Port: 68})
				e.sent = append(e.sent, o.Sent...)
			} else {
				o := srv.Run6(net.Interface{}, e.hs6, d, 1, &net.UDPAddr{IP: net.ParseIP("2001:db8::99"), Port: 546})
				e.sent = append(e.sent, o.Sent...)
			}
		}
		expectReplies = len(e.sent)
		e.close()
	}
	e := newEnv(sp)
	defer e.close()
	var wg sync.WaitGroup
	wg.Add(1)
	go func() { defer wg.Done(); e.serve() }()
	if sp.Reload {
		wg.Add(1)
		go func() { defer wg.Done(); e.reload() }()
	}
	done := make(chan struct{})
	go func() { wg.Wait(); close(done) }()
	select {
	case <-done:
	case <-time.After(30 * time.Second):
		// the Serve loop or the reload never returned: a real deadlock between goroutines of
		// the server code (a package-level lock may now be poisoned: the caller must stop)
		return "HUNG", false
	}
	dl := time.Now().Add(20 * time.Second)
	for time.Now().Before(dl) {
		e.mu.Lock()
		n := len(e.sent)
		e.mu.Unlock()
		if n >= expectReplies {
			break
		}
		time.Sleep(200 * time.Microsecond)
	}
	time.Sleep(2 * time.Millisecond) // let handlers that reply nothing finish
	e.mu.Lock()
	n := len(e.sent)
	e.mu.Unlock()
	return fmt.Sprintf("%d replies", n), n >= expectReplies
}

// Specs is the scenario catalogue.
func Specs(thorough bool) []Spec {
	a, b, c := []byte{2, 0, 0, 0, 0xa, 1}, []byte{2, 0, 0, 0, 0xb, 2}, []byte{2, 0, 0, 0, 0xc, 3}
	x := func(i byte) [3]byte { return [3]byte{0x16, 0, i} }
	out := []Spec{
		{Name: "v4/S1-same-client-discover+request", Proto: 4, Blocks: 2, Dgrams: [][]byte{Discover4(a, 0x1601, []byte{6}), Request4(a, 0x1602, nil)}},
		{Name: "v4/S2-two-clients-one-free-address", Proto: 4, Blocks: 2, Prefill: 1, Dgrams: [][]byte{Discover4(a, 0x1601, nil), Discover4(b, 0x1602, nil)}},
		{Name: "v4/S4-static-lookup+reload", Proto: 4, Blocks: 2, Reload: true, Static: true, Dgrams: [][]byte{Discover4(StaticMAC, 0x1601, nil), Request4(StaticMAC, 0x1602, nil)}},
		{Name: "v4/S4b-unknown-client-lookup+reload", Proto: 4, Blocks: 2, Reload: true, Dgrams: [][]byte{Discover4(a, 0x1601, nil), Discover4(StaticMAC, 0x1602, nil)}},
		{Name: "v4/S5-buffer-reuse-two-different-datagrams", Proto: 4, Blocks: 4, Dgrams: [][]byte{Discover4(a, 0x1601, []byte{6, 1, 3}), Request4(b, 0x1602, nil)}},
		{Name: "v4/S5b-truncated-datagram-after-a-longer-one", Proto: 4, Blocks: 4, Dgrams: [][]byte{Discover4(a, 0x1601, []byte{6, 1, 3, 15, 42, 51, 54}), noEnd(Discover4(b, 0x1602, nil)), noEnd(Request4(c, 0x1603, []byte{6}))}},
		{Name: "v4/S1d-retransmission-identical-datagram-twice", Proto: 4, Blocks: 2, Dgrams: [][]byte{Discover4(a, 0x1601, []byte{6}), Discover4(a, 0x1601, []byte{6})}},
		{Name: "v6/S1d-retransmission-identical-datagram-twice", Proto: 6, Blocks: 2, Dgrams: [][]byte{Solicit6(a, x(1), true, false, ""), Solicit6(a, x(1), true, false, "")}},
		{Name: "v6/S5c-two-relayed-solicits-through-different-relay-agents", Proto: 6, Blocks: 4, Dgrams: [][]byte{Relayed6(Solicit6(a, x(1), true, true, ""), "2001:db8:a::1", "fe80::a", "relay-a/port-1"), Relayed6(Solicit6(b, x(2), true, false, ""), "2001:db8:b::1", "fe80::b", "relay-b/port-22")}},
		{Name: "v6/S1e-relayed-two-IA_PDs+direct-solicit", Proto: 6, Blocks: 8, Dgrams: [][]byte{Relayed6(Solicit6x(a, x(1), "2001:db8:0:10::/64", "2001:db8:0:11::/64"), "2001:db8:a::1", "fe80::a", "relay-a"), Solicit6(b, x(2), true, false, "")}},
		{Name: "v6/S5d-two-short-datagrams-then-a-long-one", Proto: 6, Blocks: 4, Dgrams: [][]byte{Solicit6(a, x(1), false, true, ""), Solicit6(b, x(2), false, true, ""), Relayed6(Solicit6x(c, x(3), "2001:db8:0:12::/64", ""), "2001:db8:c::1", "fe80::c", "a-long-interface-identifier-of-a-relay-agent/port-333")}},
		{Name: "v4/S5d-two-short-datagrams-then-a-long-one", Proto: 4, Blocks: 4, Dgrams: [][]byte{Discover4(a, 0x1601, nil), Discover4(b, 0x1602, nil), Request4(c, 0x1603, []byte{1, 3, 6, 15, 42, 51, 54, 119, 121, 43, 60, 66, 67})}},
		// a datagram whose reply is dropped on the send side (layer 2 unicast with no interface to
		// send from / an interface that does not exist) followed by two clients in flight at once
		{Name: "v4/S6-reply-dropped-at-send-no-interface-info+two-clients", Proto: 4, Blocks: 4, Oob: []int{0, 1, 1}, Dgrams: [][]byte{Unicast4(Discover4(c, 0x1600, nil)), Discover4(a, 0x1601, []byte{6}), Request4(b, 0x1602, nil)}},
		{Name: "v4/S6b-reply-dropped-at-send-interface-gone+two-clients", Proto: 4, Blocks: 4, Oob: []int{99999, 1, 1}, Dgrams: [][]byte{Unicast4(Discover4(c, 0x1600, nil)), Discover4(a, 0x1601, []byte{6}), Request4(b, 0x1602, nil)}},
		// the lease time passes between a client's DISCOVER and its renewal; a second client follows
		{Name: "v4/S7-lease-time-passes-then-renewal+new-client", Proto: 4, Blocks: 3, ClockAfter: 1, ClockBy: 61 * time.Second, Dgrams: [][]byte{Discover4(a, 0x1601, nil), Request4(a, 0x1602, nil), Discover4(b, 0x1603, nil)}},
		// message types other than Solicit/Request with two IA_PDs each and crossed hints on a
		// 2-block pool: whole messages are still handled one at a time
		{Name: "v6/S1g-two-releases-two-IA_PDs-each-crossed-hints", Proto: 6, Blocks: 2, Dgrams: [][]byte{Msg6x(8, a, x(1), "2001:db8:0:10::/64", "2001:db8:0:11::/64"), Msg6x(8, b, x(2), "2001:db8:0:11::/64", "2001:db8:0:10::/64")}},
		{Name: "v6/S1h-confirm+solicit-two-IA_PDs-each-crossed-hints", Proto: 6, Blocks: 2, Dgrams: [][]byte{Msg6x(4, a, x(1), "2001:db8:0:10::/64", "2001:db8:0:11::/64"), Msg6x(1, b, x(2), "2001:db8:0:11::/64", "2001:db8:0:10::/64")}},
		{Name: "v6/S1-same-client-two-solicits", Proto: 6, Blocks: 2, Dgrams: [][]byte{Solicit6(a, x(1), true, false, ""), Solicit6(a, x(2), true, false, "")}},
		{Name: "v6/S1b-same-client-two-IA_PDs-each", Proto: 6, Blocks: 8, Dgrams: [][]byte{Solicit6x(a, x(1), "2001:db8:0:15::/64", "2001:db8:0:16::/64"), Solicit6x(a, x(2), "2001:db8:0:11::/64", "")}},
		{Name: "v6/S1c-same-client-two-hintless-IA_PDs+new-hint", Proto: 6, Blocks: 8, Dgrams: [][]byte{Solicit6x(a, x(1), "", ""), Solicit6(a, x(2), true, false, "2001:db8:0:13::/64")}},
		{Name: "v6/S2-two-clients-one-free-block", Proto: 6, Blocks: 2, Prefill: 1, Dgrams: [][]byte{Solicit6(a, x(1), true, false, ""), Solicit6(b, x(2), true, false, "")}},
		{Name: "v6/S4-static-lookup+reload", Proto: 6, Blocks: 2, Reload: true, Static: true, Dgrams: [][]byte{Solicit6(StaticMAC, x(1), false, true, ""), Solicit6(StaticMAC, x(2), true, true, "")}},
		{Name: "v6/S4b-unknown-client-lookup+reload", Proto: 6, Blocks: 2, Reload: true, Dgrams: [][]byte{Solicit6(a, x(1), false, true, ""), Solicit6(StaticMAC, x(2), false, true, "")}},
		{Name: "v6/S5-buffer-reuse-two-different-datagrams", Proto: 6, Blocks: 4, Dgrams: [][]byte{Solicit6(a, x(1), true, true, ""), Solicit6(b, x(2), true, false, "2001:db8:0:13::/64")}},
	}
	if thorough {
		out = append(out,
			Spec{Name: "v4/S3-three-clients-two-free-addresses", Proto: 4, Blocks: 4, Prefill: 2, Dgrams: [][]byte{Discover4(a, 0x1601, nil), Discover4(b, 0x1602, nil), Discover4(c, 0x1603, nil)}},
			Spec{Name: "v4/S3b-bound-client+new-client-at-exhaustion", Proto: 4, Blocks: 2, Prefill: 1, Dgrams: [][]byte{Request4([]byte{2, 0xff, 0, 0, 0, 0}, 0x1601, nil), Discover4(a, 0x1602, nil), Discover4(b, 0x1603, nil)}},
			Spec{Name: "v6/S3-three-clients-two-free-blocks", Proto: 6, Blocks: 4, Prefill: 2, Dgrams: [][]byte{Solicit6(a, x(1), true, false, ""), Solicit6(b, x(2), true, false, ""), Solicit6(c, x(3), true, false, "")}},
			Spec{Name: "v6/S3b-renew+new-same-hint", Proto: 6, Blocks: 2, Prefill: 1, Dgrams: [][]byte{Solicit6([]byte{2, 0xff, 0, 0, 0, 0}, x(1), true, false, "2001:db8:0:10::/64"), Solicit6(a, x(2), true, false, "2001:db8:0:10::/64"), Solicit6(a, x(3), true, false, "")}},
		)
	}
	return out
}

// ---- wide scenarios: thousands of datagrams in flight at once ------------------------------

// WideSpec: n datagrams from n different clients on a pool with room for all of them.
func WideSpec(proto, n int) Spec {
	sp := Spec{Name: fmt.Sprintf("v%d/wide-%d-clients-in-flight", proto, n), Proto: proto, Blocks: n + 8}
	if proto == 6 {
		b := 1
		for b < n+8 {
			b <<= 1
		}
		sp.Blocks = b
	}
	for i := 0; i < n; i++ {
		mac := []byte{2, 0, 1, byte(i >> 16), byte(i >> 8), byte(i)}
		if proto == 4 {
			sp.Dgrams = append(sp.Dgrams, Discover4(mac, uint32(0x10000+i), nil))
		} else {
			sp.Dgrams = append(sp.Dgrams, Solicit6(mac, [3]byte{byte(1 + i>>16), byte(i >> 8), byte(i)}, true, false, ""))
		}
	}
	return sp
}

// shape reduces an outcome to what every order of n distinct clients has in common.
func (e *env) shape() (string, []sched.Viol) {
	_, v := e.summarise()
	if e.locked() {
		return "LOCK-LEFT-HELD", v
	}
	xids, vals := map[string]bool{}, map[string]bool{}
	for _, s := range e.sent {
		if e.spec.Proto == 4 {
			if rep, err := pkt.ParseV4(s.Data); err == nil {
				xids[fmt.Sprintf("%08x", rep.Xid)] = true
				vals[net.IP(rep.YI[:]).String()] = true
			}
		} else if rep, err := pkt.Parse6(s.Data); err == nil && rep.Msg != nil {
			xids[fmt.Sprintf("%x", rep.Msg.Xid)] = true
			for _, o := range rep.Msg.Opts {
				if o.Code == 25 && len(o.Data) >= 12 {
					sub, _ := pkt.ParseOpts6(o.Data[12:])
					for _, so := range sub {
						if so.Code == 26 && len(so.Data) >= 25 {
							vals[fmt.Sprintf("%s/%d", net.IP(so.Data[9:25]), so.Data[8])] = true
						}
					}
				}
			}
		}
	}
	return fmt.Sprintf("replies=%d answered-transactions=%d distinct-addresses-or-prefixes=%d", len(e.sent), len(xids), len(vals)), v
}

// Wide runs the spec once one-at-a-time and once with every datagram in flight at the same
// time (round-robin schedule under the cooperative scheduler) and returns both shapes.
func (sp Spec) Wide() (serial, wide string, viols []sched.Viol, steps int, engineErr string) {
	e := newEnv(sp)
	for _, d := range sp.Dgrams {
		if e.locked() {
			break
		}
		if sp.Proto == 4 {
			o := srv.Run4(net.Interface{}, e.hs4, d, 1, &net.UDPAddr{IP: net.IPv4(10, 9, 9, 9), Port: 68})
			e.sent = append(e.sent, o.Sent...)
		} else {
			o := srv.Run6(net.Interface{}, e.hs6, d, 1, &net.UDPAddr{IP: net.ParseIP("2001:db8::99"), Port: 546})
			e.sent = append(e.sent, o.Sent...)
		}
	}
	serial, _ = e.shape()
	e.close()
	e = newEnv(sp)
	run := verifsched.NewRun(nil)
	run.Policy, run.MaxSteps = verifsched.RoundRobin, 400*len(sp.Dgrams)+100000
	run.Spawn("serve", e.serve)
	run.Start()
	if run.Horizon {
		engineErr = "wide run exceeded its step horizon"
	}
	if run.Deadlock {
		viols = append(viols, sched.Viol{Sig: "deadlock", What: fmt.Sprintf("no thread can run; blocked: %.300v", run.Blocked)})
	}
	for i := 0; i < run.NumThreads(); i++ {
		if p := run.ThreadPanic(i); p != "" {
			viols = append(viols, sched.Viol{Sig: "panic", What: fmt.Sprintf("thread %d panicked: %.600s", i, p)})
			break
		}
	}
	var v []sched.Viol
	wide, v = e.shape()
	seen := map[string]bool{}
	for _, x := range v {
		if !seen[x.Sig] {
			seen[x.Sig] = true
			viols = append(viols, x)
		}
	}
	e.close()
	return serial, wide, viols, run.Steps(), engineErr
}
