// Package ev collects what a check covered, classifies violations against
// /verif/known_findings.json, writes /verif/evidence/<id>.json and replay files.
package ev

import (
	"encoding/json"
	"fmt"
	"os"
	"path/filepath"
	"regexp"
	"sort"
	"strconv"
	"strings"
	"sync"
	"time"
)

// Root is the /verif directory (overridable for tests of the machinery itself).
var Root = func() string {
	if r := os.Getenv("VERIF_ROOT"); r != "" {
		return r
	}
	return "/verif"
}()

type Finding struct {
	Property  string `json:"property"`
	Status    string `json:"status"` // "known" | "fixed"
	Signature string `json:"signature"`
	What      string `json:"what"`
	Commit    string `json:"commit,omitempty"`
}

type Violation struct {
	Signature string      `json:"signature"`
	What      string      `json:"what"`
	Case      interface{} `json:"case"`
}

// Run accumulates coverage for one check invocation. Safe for concurrent use.
type Run struct {
	ID    string
	Tier  string
	Seed  int
	Level string

	mu          sync.Mutex
	start       time.Time
	evaluations int64
	distinct    map[string]int64
	samples     []interface{}
	sampleKeys  map[string]bool
	states      int64
	transitions int64
	traces      int64
	extra       map[string]interface{}
	rule        string
	assumptions []string
	exhaustive  bool
	capped      []string
	violations  map[string]*Violation // by signature, first (smallest) case kept
	violCount   map[string]int64
	Replaying   bool
}

func New(id, tier, level string) *Run {
	seed, _ := strconv.Atoi(os.Getenv("VERIF_SEED"))
	return &Run{ID: id, Tier: tier, Seed: seed, Level: level, start: time.Now(),
		distinct: map[string]int64{}, sampleKeys: map[string]bool{}, extra: map[string]interface{}{},
		violations: map[string]*Violation{}, violCount: map[string]int64{}, exhaustive: true}
}

func (r *Run) Quick() bool { return r.Tier != "thorough" }

// Eval counts one evaluated case and its observation class.
func (r *Run) Eval(class string) {
	r.mu.Lock()
	r.evaluations++
	r.distinct[class]++
	r.mu.Unlock()
}

// EvalN counts n evaluations of one class.
func (r *Run) EvalN(class string, n int64) {
	r.mu.Lock()
	r.evaluations += n
	r.distinct[class] += n
	r.mu.Unlock()
}

// Sample keeps at most one sample per kind (max 12 kinds).
func (r *Run) Sample(kind string, v interface{}) {
	r.mu.Lock()
	defer r.mu.Unlock()
	if r.sampleKeys[kind] || len(r.samples) >= 12 {
		return
	}
	r.sampleKeys[kind] = true
	r.samples = append(r.samples, map[string]interface{}{"kind": kind, "case": v})
}

func (r *Run) AddGraph(states, transitions, traces int64) {
	r.mu.Lock()
	r.states += states
	r.transitions += transitions
	r.traces += traces
	r.mu.Unlock()
}

func (r *Run) Set(key string, v interface{}) {
	r.mu.Lock()
	r.extra[key] = v
	r.mu.Unlock()
}

// Add adds n to an integer extra key.
func (r *Run) Add(key string, n int64) {
	r.mu.Lock()
	cur, _ := r.extra[key].(int64)
	r.extra[key] = cur + n
	r.mu.Unlock()
}

// Rule describes what is enumerated; repeated calls add parts.
func (r *Run) Rule(s string) {
	r.mu.Lock()
	defer r.mu.Unlock()
	if r.rule == "" {
		r.rule = s
	} else if !strings.Contains(r.rule, s) {
		r.rule += " || " + s
	}
}
func (r *Run) Assume(s string) { r.mu.Lock(); r.assumptions = append(r.assumptions, s); r.mu.Unlock() }

// Capped records that part of the declared space was not finished.
func (r *Run) Capped(what string) {
	r.mu.Lock()
	r.exhaustive = false
	r.capped = append(r.capped, what)
	r.mu.Unlock()
}

// Violate records a violation. The signature names oracle clause + input class.
func (r *Run) Violate(sig, what string, c interface{}) {
	r.mu.Lock()
	defer r.mu.Unlock()
	r.violCount[sig]++
	if _, ok := r.violations[sig]; !ok {
		r.violations[sig] = &Violation{Signature: sig, What: what, Case: c}
	}
}

func (r *Run) NumViolations() int {
	r.mu.Lock()
	defer r.mu.Unlock()
	return len(r.violations)
}

func LoadFindings() ([]Finding, error) {
	b, err := os.ReadFile(filepath.Join(Root, "known_findings.json"))
	if os.IsNotExist(err) {
		return nil, nil
	}
	if err != nil {
		return nil, err
	}
	var f struct {
		Findings []Finding `json:"findings"`
	}
	if err := json.Unmarshal(b, &f); err != nil {
		return nil, err
	}
	return f.Findings, nil
}

var unsafeChars = regexp.MustCompile(`[^A-Za-z0-9._-]+`)

// Finish prints verdict lines, writes evidence, returns the process exit code.
func (r *Run) Finish() int {
	r.mu.Lock()
	defer r.mu.Unlock()
	findings, err := LoadFindings()
	if err != nil {
		fmt.Println("ERROR: cannot read known_findings.json:", err)
		return 2
	}
	known := map[string]Finding{}
	for _, f := range findings {
		if f.Property == r.ID && f.Status == "known" {
			known[f.Signature] = f
		}
	}
	sigs := make([]string, 0, len(r.violations))
	for s := range r.violations {
		sigs = append(sigs, s)
	}
	sort.Strings(sigs)
	exit := 0
	nNew := 0
	var knownSeen []string
	for _, s := range sigs {
		v := r.violations[s]
		if f, ok := known[s]; ok {
			fmt.Printf("KNOWN-FINDING: property=%s %s [%s] (%d cases this run)\n", r.ID, f.What, s, r.violCount[s])
			knownSeen = append(knownSeen, s)
			continue
		}
		nNew++
		exit = 1
		path := filepath.Join(Root, "replays", r.ID+"-"+unsafeChars.ReplaceAllString(s, "_")+".json")
		if !r.Replaying {
			os.MkdirAll(filepath.Dir(path), 0o755)
			b, _ := json.MarshalIndent(map[string]interface{}{"property": r.ID, "signature": s, "what": v.What, "case": v.Case, "cases_with_this_signature": r.violCount[s]}, "", " ")
			os.WriteFile(path, b, 0o644)
		}
		fmt.Printf("VIOLATION property=%s replay=%s\n", r.ID, path)
		fmt.Printf("  signature=%s cases=%d: %s\n", s, r.violCount[s], v.What)
	}
	if r.Replaying {
		return exit
	}
	cov := map[string]interface{}{}
	for k, v := range r.extra {
		cov[k] = v
	}
	nd := int64(0)
	classes := make([]string, 0, len(r.distinct))
	for k := range r.distinct {
		classes = append(classes, k)
	}
	sort.Strings(classes)
	nd = int64(len(classes))
	if len(classes) > 40 {
		classes = classes[:40]
	}
	cov["evaluations"] = r.evaluations
	cov["distinct_nontrivial"] = nd
	cov["observation_classes"] = classes
	cov["rule"] = r.rule
	cov["samples"] = r.samples
	cov["exhaustive"] = r.exhaustive
	if len(r.capped) > 0 {
		cov["capped"] = r.capped
	}
	if r.states > 0 || r.Level == "model_checking" {
		cov["states"] = r.states
		cov["transitions"] = r.transitions
		cov["traces_validated_against_impl"] = r.traces
	}
	if len(knownSeen) > 0 {
		cov["known_findings_reproduced"] = knownSeen
	}
	evd := map[string]interface{}{
		"property_id": r.ID, "tier": r.Tier, "seed": r.Seed, "level": r.Level,
		"coverage": cov, "assumptions": r.assumptions,
		"wall_s":     float64(int(time.Since(r.start).Seconds()*1000)) / 1000,
		"violations": nNew,
	}
	if r.assumptions == nil {
		evd["assumptions"] = []string{}
	}
	b, _ := json.MarshalIndent(evd, "", " ")
	os.MkdirAll(filepath.Join(Root, "evidence"), 0o755)
	if err := os.WriteFile(filepath.Join(Root, "evidence", r.ID+".json"), append(b, '\n'), 0o644); err != nil {
		fmt.Println("ERROR: cannot write evidence:", err)
		return 2
	}
	fmt.Printf("%s %s: evaluations=%d distinct=%d states=%d transitions=%d exhaustive=%v violations=%d known=%d wall=%.1fs\n",
		r.ID, r.Tier, r.evaluations, nd, r.states, r.transitions, r.exhaustive, nNew, len(knownSeen), time.Since(r.start).Seconds())
	return exit
}

// ---- worker protocol: a worker process runs part of a check and exports its Run ----

type exported struct {
	Evaluations int64                  `json:"evaluations"`
	Distinct    map[string]int64       `json:"distinct"`
	Samples     []interface{}          `json:"samples"`
	States      int64                  `json:"states"`
	Transitions int64                  `json:"transitions"`
	Traces      int64                  `json:"traces"`
	Extra       map[string]interface{} `json:"extra"`
	Capped      []string               `json:"capped"`
	Violations  []*Violation           `json:"violations"`
	ViolCount   map[string]int64       `json:"viol_count"`
}

// Export serialises everything recorded so far (worker side).
func (r *Run) Export() []byte {
	r.mu.Lock()
	defer r.mu.Unlock()
	e := exported{Evaluations: r.evaluations, Distinct: r.distinct, Samples: r.samples, States: r.states,
		Transitions: r.transitions, Traces: r.traces, Extra: r.extra, Capped: r.capped, ViolCount: r.violCount}
	for _, v := range r.violations {
		e.Violations = append(e.Violations, v)
	}
	b, _ := json.Marshal(e)
	return b
}

// Import merges a worker's export (driver side).
func (r *Run) Import(b []byte) error {
	var e exported
	if err := json.Unmarshal(b, &e); err != nil {
		return err
	}
	r.mu.Lock()
	defer r.mu.Unlock()
	r.evaluations += e.Evaluations
	for k, v := range e.Distinct {
		r.distinct[k] += v
	}
	for _, s := range e.Samples {
		if m, ok := s.(map[string]interface{}); ok {
			k, _ := m["kind"].(string)
			if r.sampleKeys[k] || len(r.samples) >= 12 {
				continue
			}
			r.sampleKeys[k] = true
		}
		r.samples = append(r.samples, s)
	}
	r.states += e.States
	r.transitions += e.Transitions
	r.traces += e.Traces
	for k, v := range e.Extra {
		if f, ok := v.(float64); ok {
			cur, _ := r.extra[k].(int64)
			r.extra[k] = cur + int64(f)
		} else if _, have := r.extra[k]; !have {
			r.extra[k] = v
		}
	}
	if len(e.Capped) > 0 {
		r.exhaustive = false
		r.capped = append(r.capped, e.Capped...)
	}
	for _, v := range e.Violations {
		if _, ok := r.violations[v.Signature]; !ok {
			r.violations[v.Signature] = v
		}
	}
	for k, n := range e.ViolCount {
		r.violCount[k] += n
	}
	return nil
}
