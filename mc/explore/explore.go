// Package explore is engine E1: explicit-state breadth-first search in which every
// transition is an execution of the real implementation. Live Go objects cannot be
// cloned, so a state is represented by the shortest operation list that reaches it and
// a successor is computed by replaying that list on a fresh instance plus one more op.
package explore

import (
	"encoding/json"
	"fmt"
	"os"
	"runtime"
	"strings"
	"sync"
	"time"

	"verifmc/ev"
)

// Sys is one live instance of the system under exploration (implementation + ghost).
type Sys[O any] interface {
	// Ops lists the operations enabled in the current state, in a deterministic order.
	Ops() []O
	// Apply executes op on the real implementation, updates the ghost and evaluates the
	// oracles. When live is false the step only re-creates a known state: nothing is
	// counted or reported. The returned observation must be a deterministic function of
	// (state, op).
	Apply(op O, live bool) string
	// Key is the canonical state key (implementation state via hooks + ghost).
	Key() string
	Close()
}

type Config[O any] struct {
	Name        string
	New         func() Sys[O]
	MaxDepth    int  // 0 = run to fixpoint
	MaxStates   int  // safety cap; hitting it clears exhaustive
	CheckMerges bool // differential oracle on merged states
	Workers     int
	// Deadline (zero = none) truncates the search: no new state is expanded after it, the
	// result is reported as capped (never as a verdict).
	Deadline time.Time
	// KeepGoing continues the search after a level that produced violations (default: stop).
	KeepGoing bool
	// FallbackDepth bounds the unmerged re-exploration used when the merge check shows that
	// the state key does not determine behaviour (default 4).
	FallbackDepth int
}

type Result struct {
	States, Transitions int64
	Depth               int
	Merges, MergeChecks int64
	Fixpoint            bool
}

type node[O any] struct {
	path []O
	obs  map[string]string // op(json) -> "obs => key" once expanded
	alts [][]O
}

func opKey(o any) string { b, _ := json.Marshal(o); return string(b) }

// Explore runs the BFS and adds its counts to r. A merge divergence (state key too
// coarse: checker defect) panics with a description; callers treat it as exit 2.
func Explore[O any](r *ev.Run, cfg Config[O]) Result {
	if cfg.Workers <= 0 {
		cfg.Workers = runtime.NumCPU()
	}
	if cfg.MaxStates <= 0 {
		cfg.MaxStates = 2_000_000
	}
	var res Result
	root := cfg.New()
	rootKey := root.Key()
	root.Close()
	nodes := map[string]*node[O]{rootKey: {}}
	frontier := []string{rootKey}
	res.States = 1
	type succ struct {
		op       O
		obs, key string
		terminal bool
	}
	violAtStart := r.NumViolations()
	stoppedOnViolation := false
	for depth := 0; len(frontier) > 0; depth++ {
		if cfg.MaxDepth > 0 && depth >= cfg.MaxDepth {
			break
		}
		if r.NumViolations() > violAtStart && !cfg.KeepGoing {
			// breadth-first: the violations found so far are the shortest ones. A tree that
			// breaks the property can have a far larger (even unbounded) state space than
			// the one the bounds were chosen for, so the search stops after the level that
			// produced the first violation.
			stoppedOnViolation = true
			r.Capped(fmt.Sprintf("%s: search stopped after depth %d, the first level with a violation (%d states unexpanded)", cfg.Name, depth, len(frontier)))
			break
		}
		if os.Getenv("VERIF_PROGRESS") != "" {
			fmt.Fprintf(os.Stderr, "[explore %s] depth %d frontier %d states %d transitions %d\n", cfg.Name, depth, len(frontier), res.States, res.Transitions)
		}
		out := make([][]succ, len(frontier))
		timedOut := false
		var wg sync.WaitGroup
		var next int
		var mu sync.Mutex
		for w := 0; w < cfg.Workers; w++ {
			wg.Add(1)
			go func() {
				defer wg.Done()
				for {
					mu.Lock()
					i := next
					next++
					mu.Unlock()
					if i >= len(frontier) {
						return
					}
					if !cfg.Deadline.IsZero() && time.Now().After(cfg.Deadline) {
						mu.Lock()
						timedOut = true
						mu.Unlock()
						return
					}
					n := nodes[frontier[i]]
					s := replay(cfg, n.path)
					ops := s.Ops()
					for j, op := range ops {
						if j > 0 {
							s = replay(cfg, n.path)
						}
						obs := s.Apply(op, true)
						term := false
						if t, ok := s.(interface{ Terminal() bool }); ok {
							term = t.Terminal()
						}
						out[i] = append(out[i], succ{op, obs, s.Key(), term})
						s.Close()
					}
					if len(ops) == 0 {
						s.Close()
					}
				}
			}()
		}
		wg.Wait()
		var nextFrontier []string
		for i, succs := range out {
			n := nodes[frontier[i]]
			n.obs = map[string]string{}
			for _, sc := range succs {
				res.Transitions++
				if sc.terminal {
					// the oracle that declared the successor terminal only runs in live mode:
					// a non-live re-execution can only be compared on the observation
					n.obs[opKey(sc.op)] = sc.obs + " => (terminal)"
				} else {
					n.obs[opKey(sc.op)] = sc.obs + " => " + sc.key
				}
				path := append(append([]O{}, n.path...), sc.op)
				if m, ok := nodes[sc.key]; ok {
					res.Merges++
					if cfg.CheckMerges && !sc.terminal && len(m.alts) < 2 && len(path) > 0 && opKey(path) != opKey(m.path) {
						m.alts = append(m.alts, path)
					}
					continue
				}
				if int(res.States) >= cfg.MaxStates {
					r.Capped(fmt.Sprintf("%s: state cap %d hit at depth %d", cfg.Name, cfg.MaxStates, depth))
					continue
				}
				nodes[sc.key] = &node[O]{path: path}
				if !sc.terminal {
					// terminal states (instance dead after a panic, or property already violated
					// on the way in) are counted but never expanded nor replayed
					nextFrontier = append(nextFrontier, sc.key)
				}
				res.States++
			}
		}
		frontier = nextFrontier
		res.Depth = depth + 1
		if timedOut {
			stoppedOnViolation = true // (reported below as capped, not as a missing fixpoint)
			r.Capped(fmt.Sprintf("%s: time budget hit inside depth %d (%d states so far)", cfg.Name, depth, res.States))
			break
		}
	}
	res.Fixpoint = len(frontier) == 0
	if !res.Fixpoint && !stoppedOnViolation {
		r.Capped(fmt.Sprintf("%s: depth bound %d reached with %d unexpanded states", cfg.Name, cfg.MaxDepth, len(frontier)))
	}
	// Differential oracle on merges: a state reached through another path must behave
	// exactly like its representative for every enabled operation.
	if cfg.CheckMerges && (cfg.Deadline.IsZero() || time.Now().Before(cfg.Deadline)) {
		type job struct {
			key string
			alt []O
		}
		var jobs []job
		for k, n := range nodes {
			if n.obs == nil {
				continue
			}
			for _, a := range n.alts {
				jobs = append(jobs, job{k, a})
			}
		}
		var wg sync.WaitGroup
		var mu sync.Mutex
		var diverged []string
		mergeTimedOut := false
		ch := make(chan job)
		for w := 0; w < cfg.Workers; w++ {
			wg.Add(1)
			go func() {
				defer wg.Done()
				for j := range ch {
					if !cfg.Deadline.IsZero() && time.Now().After(cfg.Deadline) {
						mu.Lock()
						mergeTimedOut = true
						mu.Unlock()
						continue
					}
					n := nodes[j.key]
					s := replay(cfg, j.alt)
					ops := s.Ops()
					if len(ops) != len(n.obs) {
						mu.Lock()
						diverged = append(diverged, fmt.Sprintf("%s: state %q: %d ops via %s but %d via %s", cfg.Name, j.key, len(ops), opKey(j.alt), len(n.obs), opKey(n.path)))
						mu.Unlock()
					}
					for i, op := range ops {
						if i > 0 {
							s = replay(cfg, j.alt)
						}
						// live: the oracles also run on this second path into the state, so that
						// behaviour depending on something outside the key (hidden state added by
						// a change, map iteration order on a broken tree) is judged as well
						got := s.Apply(op, true)
						want, ok := n.obs[opKey(op)]
						if strings.HasSuffix(want, " => (terminal)") {
							got += " => (terminal)"
						} else {
							got += " => " + s.Key()
						}
						s.Close()
						mu.Lock()
						res.MergeChecks++
						if !ok || got != want {
							diverged = append(diverged, fmt.Sprintf("%s: state %q op %s: via %s -> %q, via %s -> %q", cfg.Name, j.key, opKey(op), opKey(j.alt), got, opKey(n.path), want))
						}
						mu.Unlock()
					}
					if len(ops) == 0 {
						s.Close()
					}
				}
			}()
		}
		for _, j := range jobs {
			ch <- j
		}
		close(ch)
		wg.Wait()
		if mergeTimedOut {
			r.Capped(fmt.Sprintf("%s: time budget hit during the differential merge checks (%d done)", cfg.Name, res.MergeChecks))
		}
		if len(diverged) > 0 {
			// Two histories reaching the same key behave differently. On a tree where the
			// property holds this means the key is too coarse (checker defect, exit 2). If the
			// oracles already found violations, the difference is a symptom of the broken tree.
			if r.NumViolations() == 0 {
				// Behaviour depends on something the key does not contain (e.g. hidden state
				// added by a change). Merging is unsound here: explore this configuration again
				// WITHOUT merging - every operation sequence up to a depth bound, oracles on.
				depth := cfg.FallbackDepth
				if depth <= 0 {
					depth = 4
				}
				if os.Getenv("VERIF_PROGRESS") != "" {
					fmt.Fprintf(os.Stderr, "[explore %s] merge divergence: %s\n", cfg.Name, diverged[0])
				}
				n := pathExplore(r, cfg, depth, 400000)
				r.Add("unmerged_fallback_sequences", n)
				r.Capped(fmt.Sprintf("%s: state key found too coarse (%s); configuration re-explored without merging to depth %d", cfg.Name, diverged[0], depth))
			}
			if r.NumViolations() == 0 {
				panic("merge-divergence (state key too coarse; checker defect): " + diverged[0])
			}
			r.Add("merge_divergences_on_violating_tree", int64(len(diverged)))
		}
	}
	r.AddGraph(res.States, res.Transitions, res.Transitions+res.MergeChecks)
	return res
}

func replay[O any](cfg Config[O], path []O) Sys[O] {
	s := cfg.New()
	for _, op := range path {
		s.Apply(op, false)
	}
	return s
}

// pathExplore executes every operation sequence up to depth (at most limit sequences) on
// fresh instances with the oracles on, without any state merging.
func pathExplore[O any](r *ev.Run, cfg Config[O], depth int, limit int64) int64 {
	frontier := [][]O{nil}
	var total int64
	for d := 0; d < depth && len(frontier) > 0; d++ {
		next := make([][][]O, len(frontier))
		var wg sync.WaitGroup
		var mu sync.Mutex
		idx := 0
		for w := 0; w < cfg.Workers; w++ {
			wg.Add(1)
			go func() {
				defer wg.Done()
				for {
					mu.Lock()
					i := idx
					idx++
					stop := total >= limit
					mu.Unlock()
					if i >= len(frontier) || stop {
						return
					}
					path := frontier[i]
					s := replay(cfg, path)
					ops := s.Ops()
					for j, op := range ops {
						if j > 0 {
							s = replay(cfg, path)
						}
						s.Apply(op, true)
						term := false
						if t, ok := s.(interface{ Terminal() bool }); ok {
							term = t.Terminal()
						}
						s.Close()
						if !term {
							next[i] = append(next[i], append(append([]O{}, path...), op))
						}
						mu.Lock()
						total++
						mu.Unlock()
					}
					if len(ops) == 0 {
						s.Close()
					}
				}
			}()
		}
		wg.Wait()
		frontier = frontier[:0]
		for _, n := range next {
			frontier = append(frontier, n...)
		}
	}
	return total
}
