module verifmc

go 1.22.0

require (
	github.com/anishathalye/porcupine v1.3.0
	github.com/coredhcp/coredhcp v0.0.0
)

replace github.com/coredhcp/coredhcp => /repo
