// Package pkt: raw DHCPv4/DHCPv6 wire builders and minimal parsers written from the RFCs,
// independent of the insomniacslk codec, so that oracles compare bytes on the wire.
package pkt

import (
	"encoding/binary"
	"errors"
	"fmt"
)

// ---- DHCPv4 -------------------------------------------------------------------------

type Opt4 struct {
	Code byte
	Data []byte
}

type V4 struct {
	Op, HType, HLen, Hops byte
	Xid                   uint32
	Secs, Flags           uint16
	CI, YI, SI, GI        [4]byte
	CHAddr                [16]byte
	SName                 [64]byte
	File                  [128]byte
	Opts                  []Opt4
	NoEnd                 bool // omit the END option
}

var Cookie = []byte{99, 130, 83, 99}

func (p V4) Bytes() []byte {
	b := make([]byte, 0, 300)
	b = append(b, p.Op, p.HType, p.HLen, p.Hops)
	b = binary.BigEndian.AppendUint32(b, p.Xid)
	b = binary.BigEndian.AppendUint16(b, p.Secs)
	b = binary.BigEndian.AppendUint16(b, p.Flags)
	b = append(b, p.CI[:]...)
	b = append(b, p.YI[:]...)
	b = append(b, p.SI[:]...)
	b = append(b, p.GI[:]...)
	b = append(b, p.CHAddr[:]...)
	b = append(b, p.SName[:]...)
	b = append(b, p.File[:]...)
	b = append(b, Cookie...)
	for _, o := range p.Opts {
		b = append(b, o.Code, byte(len(o.Data)))
		b = append(b, o.Data...)
	}
	if !p.NoEnd {
		b = append(b, 255)
	}
	return b
}

// ParseV4 is a strict minimal parser: header, cookie, TLV options up to END.
func ParseV4(b []byte) (V4, error) {
	var p V4
	if len(b) < 240 {
		return p, errors.New("short")
	}
	p.Op, p.HType, p.HLen, p.Hops = b[0], b[1], b[2], b[3]
	p.Xid = binary.BigEndian.Uint32(b[4:])
	p.Secs = binary.BigEndian.Uint16(b[8:])
	p.Flags = binary.BigEndian.Uint16(b[10:])
	copy(p.CI[:], b[12:])
	copy(p.YI[:], b[16:])
	copy(p.SI[:], b[20:])
	copy(p.GI[:], b[24:])
	copy(p.CHAddr[:], b[28:44])
	copy(p.SName[:], b[44:108])
	copy(p.File[:], b[108:236])
	if string(b[236:240]) != string(Cookie) {
		return p, errors.New("bad cookie")
	}
	i := 240
	for i < len(b) {
		c := b[i]
		i++
		if c == 0 {
			continue
		}
		if c == 255 {
			return p, nil
		}
		if i >= len(b) {
			return p, errors.New("truncated option header")
		}
		l := int(b[i])
		i++
		if i+l > len(b) {
			return p, errors.New("truncated option")
		}
		p.Opts = append(p.Opts, Opt4{c, append([]byte(nil), b[i:i+l]...)})
		i += l
	}
	p.NoEnd = true
	return p, nil
}

// Get returns the concatenation (RFC 3396) of all instances of code and their count.
func (p V4) Get(code byte) (data []byte, n int) {
	for _, o := range p.Opts {
		if o.Code == code {
			data = append(data, o.Data...)
			n++
		}
	}
	return
}

func (p V4) Has(code byte) bool { _, n := p.Get(code); return n > 0 }

// MsgType returns the DHCP message type, -1 if absent or not exactly one byte in all.
func (p V4) MsgType() int {
	d, n := p.Get(53)
	if n < 1 || len(d) != 1 { // repeated instances are one option (RFC 3396 concatenation)
		return -1
	}
	return int(d[0])
}

// ---- DHCPv6 -------------------------------------------------------------------------

type Opt6 struct {
	Code uint16
	Data []byte
}

func EncOpts6(opts []Opt6) []byte {
	var b []byte
	for _, o := range opts {
		b = binary.BigEndian.AppendUint16(b, o.Code)
		b = binary.BigEndian.AppendUint16(b, uint16(len(o.Data)))
		b = append(b, o.Data...)
	}
	return b
}

// Msg6 is a client/server message.
type Msg6 struct {
	Type byte
	Xid  [3]byte
	Opts []Opt6
}

func (m Msg6) Bytes() []byte {
	return append([]byte{m.Type, m.Xid[0], m.Xid[1], m.Xid[2]}, EncOpts6(m.Opts)...)
}

// Relay6 is a Relay-Forward (12) / Relay-Reply (13) layer; its Relay Message option (9)
// is appended from Inner when Inner != nil.
type Relay6 struct {
	Type  byte
	Hop   byte
	Link  [16]byte
	Peer  [16]byte
	Opts  []Opt6 // options before the relay message option
	Inner []byte // payload of option 9; nil = no relay-message option
	After []Opt6 // options after it
}

func (r Relay6) Bytes() []byte {
	b := []byte{r.Type, r.Hop}
	b = append(b, r.Link[:]...)
	b = append(b, r.Peer[:]...)
	b = append(b, EncOpts6(r.Opts)...)
	if r.Inner != nil {
		b = append(b, EncOpts6([]Opt6{{9, r.Inner}})...)
	}
	b = append(b, EncOpts6(r.After)...)
	return b
}

func ParseOpts6(b []byte) ([]Opt6, error) {
	var out []Opt6
	for len(b) > 0 {
		if len(b) < 4 {
			return out, errors.New("truncated option header")
		}
		c, l := binary.BigEndian.Uint16(b), int(binary.BigEndian.Uint16(b[2:]))
		if 4+l > len(b) {
			return out, errors.New("truncated option")
		}
		out = append(out, Opt6{c, append([]byte(nil), b[4:4+l]...)})
		b = b[4+l:]
	}
	return out, nil
}

// Parsed6 is a parsed datagram: the relay layers outermost first, then the message.
type Parsed6 struct {
	Layers []Relay6 // Opts holds ALL options of the layer except option 9
	Msg    *Msg6
}

func Parse6(b []byte) (Parsed6, error) {
	var p Parsed6
	for depth := 0; ; depth++ {
		if depth > 64 {
			return p, errors.New("too deep")
		}
		if len(b) < 4 {
			return p, errors.New("short")
		}
		if b[0] == 12 || b[0] == 13 {
			if len(b) < 34 {
				return p, errors.New("short relay")
			}
			var r Relay6
			r.Type, r.Hop = b[0], b[1]
			copy(r.Link[:], b[2:18])
			copy(r.Peer[:], b[18:34])
			opts, err := ParseOpts6(b[34:])
			if err != nil {
				return p, err
			}
			var inner []byte
			n := 0
			for _, o := range opts {
				if o.Code == 9 {
					inner = o.Data
					n++
				} else {
					r.Opts = append(r.Opts, o)
				}
			}
			p.Layers = append(p.Layers, r)
			if n != 1 {
				return p, fmt.Errorf("%d relay-message options", n)
			}
			b = inner
			continue
		}
		m := Msg6{Type: b[0]}
		copy(m.Xid[:], b[1:4])
		opts, err := ParseOpts6(b[4:])
		if err != nil {
			return p, err
		}
		m.Opts = opts
		p.Msg = &m
		return p, nil
	}
}

func Get6(opts []Opt6, code uint16) (first []byte, n int) {
	for _, o := range opts {
		if o.Code == code {
			if n == 0 {
				first = o.Data
			}
			n++
		}
	}
	return
}

// ---- "fields the property does not speak about" ---------------------------------------
//
// Extra4 / Extra6 enumerate one additional option per case: every option code with a few
// payload shapes. Checks whose property makes the outcome a function of named fields only
// (C02: the hardware address; C15: giaddr/ciaddr/flag/reply type; C08/C09: client id and
// IA_PD contents; ...) re-run base cases with each extra option added and demand the same
// outcome: whatever such an option says, it is not one of the named fields.

// Extra4 returns the extra DHCPv4 options; except lists codes the caller's base case or
// property gives a meaning to.
func Extra4(except ...byte) []Opt4 {
	skip := map[byte]bool{0: true, 255: true, 53: true, 52: true} // pad, end, message type, overload
	for _, c := range except {
		skip[c] = true
	}
	var out []Opt4
	for c := 1; c < 255; c++ {
		if skip[byte(c)] {
			continue
		}
		out = append(out, Opt4{Code: byte(c), Data: []byte{}})
		out = append(out, Opt4{Code: byte(c), Data: []byte{1}})
		out = append(out, Opt4{Code: byte(c), Data: []byte{5, 0, 0}})
		out = append(out, Opt4{Code: byte(c), Data: []byte{0xff, 0xff}})
		out = append(out, Opt4{Code: byte(c), Data: []byte{10, 0, 0, 11}})
		out = append(out, Opt4{Code: byte(c), Data: []byte{0, 0, 2, 88}}) // a small number (600)
		long := make([]byte, 64)
		for i := range long {
			long[i] = byte(0xc0 + i%7)
		}
		out = append(out, Opt4{Code: byte(c), Data: long})
	}
	return out
}

// Extra6 returns the extra DHCPv6 options (codes 1..160 and a few high ones).
func Extra6(except ...uint16) []Opt6 {
	skip := map[uint16]bool{1: true, 2: true, 3: true, 4: true, 9: true, 25: true}
	for _, c := range except {
		skip[c] = true
	}
	codes := []uint16{}
	for c := uint16(5); c <= 160; c++ {
		codes = append(codes, c)
	}
	codes = append(codes, 255, 256, 4096, 65535)
	var out []Opt6
	for _, c := range codes {
		if skip[c] {
			continue
		}
		out = append(out, Opt6{Code: c})
		out = append(out, Opt6{Code: c, Data: []byte{0, 1}})
		long := make([]byte, 16)
		long[0], long[1], long[15] = 0x20, 0x01, 1
		out = append(out, Opt6{Code: c, Data: long})
	}
	return out
}
