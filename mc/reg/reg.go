// Package reg is the registry of checks compiled into the mc binary.
package reg

import (
	"encoding/json"

	"verifmc/ev"
)

type Check struct {
	ID    string
	Level string
	// Run explores the property at r.Tier and records coverage/violations in r.
	Run func(r *ev.Run)
	// Replay re-executes one recorded case (the "case" member of a replay file).
	Replay func(r *ev.Run, c json.RawMessage)
	// Worker entry points for checks that need one process per configuration.
	Worker func(args []string) int
}

var Checks = map[string]*Check{}

func Register(c *Check) { Checks[c.ID] = c }

// Tier is the tier of the driver, for worker processes.
var Tier = "quick"
