package reg

import (
	"bytes"
	"fmt"
	"os"
	"os/exec"
	"runtime"
	"strings"
	"sync"
	"time"

	"verifmc/ev"
)

const marker = "\n@@VERIF-WORKER-EXPORT@@\n"

// WorkerResult is what happened to one worker process.
type WorkerResult struct {
	Died   bool   // exited without exporting (panic escaped, log.Fatal, killed)
	Hung   bool   // killed by the timeout
	Output string // tail of its combined output
}

// Spawn runs this binary as `-check id -tier tier -worker args...`, merges the worker's
// export into r and reports whether the worker died.
func Spawn(r *ev.Run, id string, timeout time.Duration, args ...string) WorkerResult {
	bin := os.Getenv("VERIF_BIN")
	if bin == "" {
		bin, _ = os.Executable()
	}
	cmd := exec.Command(bin, append([]string{"-check", id, "-tier", r.Tier, "-worker"}, args...)...)
	var buf bytes.Buffer
	cmd.Stdout, cmd.Stderr = &buf, &buf
	if err := cmd.Start(); err != nil {
		panic(err)
	}
	done := make(chan error, 1)
	go func() { done <- cmd.Wait() }()
	var res WorkerResult
	select {
	case <-done:
	case <-time.After(timeout):
		cmd.Process.Kill()
		<-done
		res.Hung = true
	}
	out := buf.String()
	if i := strings.LastIndex(out, marker); i >= 0 && !res.Hung {
		if err := r.Import([]byte(out[i+len(marker):])); err != nil {
			panic(fmt.Sprintf("worker export unreadable: %v", err))
		}
		out = out[:i]
	} else {
		res.Died = true
	}
	if len(out) > 9000 {
		// keep the head (fatal error line and the crashing goroutine) and the tail
		out = out[:6000] + "\n...[snip]...\n" + out[len(out)-3000:]
	}
	res.Output = out
	return res
}

// WorkerExit is called by a worker when it is done: prints the export and returns 0.
func WorkerExit(r *ev.Run) int {
	os.Stdout.WriteString(marker)
	os.Stdout.Write(r.Export())
	return 0
}

// Isolated runs body in a worker process of the same binary (`-worker isolated`), so that a
// fatal error of the code under test (out of memory, stack overflow, log.Fatal) cannot take
// the driver down. A worker death is re-run once and, if it reproduces, reported as a
// violation of property id whose signature names the first coredhcp frame of the crash.
func Isolated(r *ev.Run, id string, timeout time.Duration) {
	res := Spawn(r, id, timeout, "isolated")
	if !res.Died && !res.Hung {
		return
	}
	res2 := Spawn(ev.New(id, r.Tier, r.Level), id, timeout, "isolated")
	if !res2.Died && !res2.Hung {
		panic("isolated worker died once but not on re-run (checker error): " + res.Output)
	}
	if res2.Hung && !strings.Contains(res2.Output, "@@HANG") {
		// no single call was stuck (the per-operation watchdog reports that): the exploration
		// as a whole needed longer than its budget. Truncation, never a verdict.
		r.Capped(fmt.Sprintf("exploration did not finish within %s", timeout))
		return
	}
	for _, marker := range []string{"engine error", "checker error", "merge-divergence", "checker defect", "harness request does not parse", "scenario precondition failed"} {
		if strings.Contains(res2.Output, marker) {
			// the worker was stopped by the checker's own consistency guards: not a verdict
			panic("isolated worker stopped by a checker guard: " + firstLines(res2.Output, 6))
		}
	}
	if !strings.Contains(res2.Output, "@@HANG") && !strings.Contains(res2.Output, "fatal error:") && !res2.Hung {
		// an ordinary panic: whose code panicked? (first frame of the panicking goroutine)
		if f := panicFrame(res2.Output); strings.HasPrefix(f, "verifmc/") || f == "" {
			panic("isolated worker died in checker code (checker error, not a verdict): " + firstLines(res2.Output, 8))
		}
	}
	what := "died"
	switch {
	case strings.Contains(res2.Output, "@@HANG"):
		i := strings.Index(res2.Output, "@@HANG")
		what = "was stuck in one call into the code under test (" + strings.TrimSpace(strings.SplitN(res2.Output[i:], "\n", 2)[0]) + ")"
	case res2.Hung:
		what = "did not finish within the watchdog"
	case strings.Contains(res2.Output, "out of memory"):
		what = "ran out of memory (fatal error: out of memory)"
	case strings.Contains(res2.Output, "stack overflow"):
		what = "overflowed the stack"
	}
	site := "unknown"
	for _, l := range strings.Split(res2.Output, "\n") {
		l = strings.TrimSpace(l)
		if strings.HasPrefix(l, "github.com/coredhcp/coredhcp/") && !strings.Contains(l, "erif") {
			site = strings.TrimPrefix(l, "github.com/coredhcp/coredhcp/")
			if i := strings.LastIndex(site, "("); i > 0 {
				site = site[:i]
			}
			break
		}
	}
	kind := "fatal"
	if strings.Contains(res2.Output, "@@HANG") {
		kind = "hang"
	}
	r.Violate(id+"/"+kind+"/"+site, "the process exploring this property "+what+" inside coredhcp code ("+site+"): "+firstLines(res2.Output, 14), map[string]string{"worker": "isolated"})
}

func lastLines(s string, n int) string {
	l := strings.Split(strings.TrimSpace(s), "\n")
	if len(l) > n {
		l = l[len(l)-n:]
	}
	return strings.Join(l, " | ")
}

func firstLines(s string, n int) string {
	var keep []string
	for _, l := range strings.Split(s, "\n") {
		l = strings.TrimSpace(l)
		if l == "" || strings.HasPrefix(l, "/") || strings.HasPrefix(l, "runtime.") {
			continue
		}
		keep = append(keep, l)
		if len(keep) >= n {
			break
		}
	}
	return strings.Join(keep, " | ")
}

// ---- per-operation watchdog --------------------------------------------------------
//
// Code under test may loop forever or block on a lock that is never released. Workers
// bracket every call into coredhcp with OpBegin/OpEnd; a watchdog goroutine dumps all
// goroutine stacks and exits with status 3 when one call takes longer than the limit
// (normal cost: microseconds to milliseconds). The driver (Isolated) re-runs the worker and
// reports a reproducible hang as a violation.

var (
	opMu   sync.Mutex
	opSeq  int
	opLive = map[int]opRec{}
	opOnce sync.Once
)

type opRec struct {
	desc  string
	since time.Time
}

// OpLimit is the wall-clock limit for one call into the code under test.
var OpLimit = 30 * time.Second

// OpBegin marks the start of a call into the code under test and returns the function that
// marks its end (several goroutines of one worker may be inside calls at the same time).
func OpBegin(desc string) func() {
	opOnce.Do(func() {
		go func() {
			for {
				time.Sleep(time.Second)
				opMu.Lock()
				var worst opRec
				for _, o := range opLive {
					if worst.desc == "" || o.since.Before(worst.since) {
						worst = o
					}
				}
				opMu.Unlock()
				if worst.desc != "" && time.Since(worst.since) > OpLimit {
					fmt.Printf("\n@@HANG after %s: %s\n", OpLimit, worst.desc)
					buf := make([]byte, 4<<20)
					n := runtime.Stack(buf, true)
					os.Stdout.Write(hangRelevant(buf[:n]))
					os.Exit(3)
				}
			}
		}()
	})
	opMu.Lock()
	opSeq++
	id := opSeq
	opLive[id] = opRec{desc, time.Now()}
	opMu.Unlock()
	return func() {
		opMu.Lock()
		delete(opLive, id)
		opMu.Unlock()
	}
}

// hangRelevant keeps the goroutines whose stacks contain coredhcp frames.
func hangRelevant(dump []byte) []byte {
	var out []string
	for _, g := range strings.Split(string(dump), "\n\n") {
		if strings.Contains(g, "github.com/coredhcp/coredhcp/") {
			if len(g) > 2500 {
				g = g[:2500]
			}
			out = append(out, g)
		}
		if len(out) >= 4 {
			break
		}
	}
	return []byte(strings.Join(out, "\n\n") + "\n")
}

// panicFrame returns the function in which a panic was raised: the first frame of the first
// "[running]" goroutine that is neither the runtime nor panic machinery.
func panicFrame(out string) string {
	i := strings.Index(out, "[running]:")
	if i < 0 {
		return ""
	}
	for _, l := range strings.Split(out[i:], "\n")[1:] {
		if strings.HasPrefix(l, "\t") || strings.TrimSpace(l) == "" {
			continue
		}
		if strings.HasPrefix(l, "panic(") || strings.HasPrefix(l, "runtime.") || strings.HasPrefix(l, "runtime/") {
			continue
		}
		return strings.TrimSpace(l)
	}
	return ""
}
