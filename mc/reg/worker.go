package reg

import (
	"bytes"
	"fmt"
	"os"
	"os/exec"
	"strings"
	"time"

	"verifmc/ev"
)

const marker = "\n@@VERIF-WORKER-EXPORT@@\n"

// WorkerResult is what happened to one worker process.
type WorkerResult struct {
	Died   bool   // exited without exporting (panic escaped, log.Fatal, killed)
	Hung   bool   // killed by the timeout
	Output string // tail of its combined output
}

// Spawn runs this binary as `-check id -tier tier -worker args...`, merges the worker's
// export into r and reports whether the worker died.
func Spawn(r *ev.Run, id string, timeout time.Duration, args ...string) WorkerResult {
	bin := os.Getenv("VERIF_BIN")
	if bin == "" {
		bin, _ = os.Executable()
	}
	cmd := exec.Command(bin, append([]string{"-check", id, "-tier", r.Tier, "-worker"}, args...)...)
	var buf bytes.Buffer
	cmd.Stdout, cmd.Stderr = &buf, &buf
	if err := cmd.Start(); err != nil {
		panic(err)
	}
	done := make(chan error, 1)
	go func() { done <- cmd.Wait() }()
	var res WorkerResult
	select {
	case <-done:
	case <-time.After(timeout):
		cmd.Process.Kill()
		<-done
		res.Hung = true
	}
	out := buf.String()
	if i := strings.LastIndex(out, marker); i >= 0 && !res.Hung {
		if err := r.Import([]byte(out[i+len(marker):])); err != nil {
			panic(fmt.Sprintf("worker export unreadable: %v", err))
		}
		out = out[:i]
	} else {
		res.Died = true
	}
	if len(out) > 9000 {
		// keep the head (fatal error line and the crashing goroutine) and the tail
		out = out[:6000] + "\n...[snip]...\n" + out[len(out)-3000:]
	}
	res.Output = out
	return res
}

// WorkerExit is called by a worker when it is done: prints the export and returns 0.
func WorkerExit(r *ev.Run) int {
	os.Stdout.WriteString(marker)
	os.Stdout.Write(r.Export())
	return 0
}

// Isolated runs body in a worker process of the same binary (`-worker isolated`), so that a
// fatal error of the code under test (out of memory, stack overflow, log.Fatal) cannot take
// the driver down. A worker death is re-run once and, if it reproduces, reported as a
// violation of property id whose signature names the first coredhcp frame of the crash.
func Isolated(r *ev.Run, id string, timeout time.Duration) {
	res := Spawn(r, id, timeout, "isolated")
	if !res.Died && !res.Hung {
		return
	}
	res2 := Spawn(ev.New(id, r.Tier, r.Level), id, timeout, "isolated")
	if !res2.Died && !res2.Hung {
		panic("isolated worker died once but not on re-run (checker error): " + res.Output)
	}
	for _, marker := range []string{"engine error", "checker error", "merge-divergence", "checker defect", "harness request does not parse", "scenario precondition failed"} {
		if strings.Contains(res2.Output, marker) {
			// the worker was stopped by the checker's own consistency guards: not a verdict
			panic("isolated worker stopped by a checker guard: " + firstLines(res2.Output, 6))
		}
	}
	what := "died"
	switch {
	case res2.Hung:
		what = "did not finish within the watchdog"
	case strings.Contains(res2.Output, "out of memory"):
		what = "ran out of memory (fatal error: out of memory)"
	case strings.Contains(res2.Output, "stack overflow"):
		what = "overflowed the stack"
	}
	site := "unknown"
	for _, l := range strings.Split(res2.Output, "\n") {
		l = strings.TrimSpace(l)
		if strings.HasPrefix(l, "github.com/coredhcp/coredhcp/") && !strings.Contains(l, "erif") {
			site = strings.TrimPrefix(l, "github.com/coredhcp/coredhcp/")
			if i := strings.LastIndex(site, "("); i > 0 {
				site = site[:i]
			}
			break
		}
	}
	r.Violate(id+"/fatal/"+site, "the process exploring this property "+what+" inside coredhcp code ("+site+"): "+firstLines(res2.Output, 14), map[string]string{"worker": "isolated"})
}

func lastLines(s string, n int) string {
	l := strings.Split(strings.TrimSpace(s), "\n")
	if len(l) > n {
		l = l[len(l)-n:]
	}
	return strings.Join(l, " | ")
}

func firstLines(s string, n int) string {
	var keep []string
	for _, l := range strings.Split(s, "\n") {
		l = strings.TrimSpace(l)
		if l == "" || strings.HasPrefix(l, "/") || strings.HasPrefix(l, "runtime.") {
			continue
		}
		keep = append(keep, l)
		if len(keep) >= n {
			break
		}
	}
	return strings.Join(keep, " | ")
}
