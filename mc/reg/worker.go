package reg

import (
	"bytes"
	"fmt"
	"os"
	"os/exec"
	"strings"
	"time"

	"verifmc/ev"
)

const marker = "\n@@VERIF-WORKER-EXPORT@@\n"

// WorkerResult is what happened to one worker process.
type WorkerResult struct {
	Died   bool   // exited without exporting (panic escaped, log.Fatal, killed)
	Hung   bool   // killed by the timeout
	Output string // tail of its combined output
}

// Spawn runs this binary as `-check id -tier tier -worker args...`, merges the worker's
// export into r and reports whether the worker died.
func Spawn(r *ev.Run, id string, timeout time.Duration, args ...string) WorkerResult {
	bin := os.Getenv("VERIF_BIN")
	if bin == "" {
		bin, _ = os.Executable()
	}
	cmd := exec.Command(bin, append([]string{"-check", id, "-tier", r.Tier, "-worker"}, args...)...)
	var buf bytes.Buffer
	cmd.Stdout, cmd.Stderr = &buf, &buf
	if err := cmd.Start(); err != nil {
		panic(err)
	}
	done := make(chan error, 1)
	go func() { done <- cmd.Wait() }()
	var res WorkerResult
	select {
	case <-done:
	case <-time.After(timeout):
		cmd.Process.Kill()
		<-done
		res.Hung = true
	}
	out := buf.String()
	if i := strings.LastIndex(out, marker); i >= 0 && !res.Hung {
		if err := r.Import([]byte(out[i+len(marker):])); err != nil {
			panic(fmt.Sprintf("worker export unreadable: %v", err))
		}
		out = out[:i]
	} else {
		res.Died = true
	}
	if len(out) > 3000 {
		out = out[len(out)-3000:]
	}
	res.Output = out
	return res
}

// WorkerExit is called by a worker when it is done: prints the export and returns 0.
func WorkerExit(r *ev.Run) int {
	os.Stdout.WriteString(marker)
	os.Stdout.Write(r.Export())
	return 0
}
