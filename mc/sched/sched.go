// Package sched is the explorer of engine E2: stateless depth-first search over the choice
// lists of verifsched runs with iterative preemption bounding.
package sched

import (
	"fmt"
	"sort"
	"time"

	"verifmc/verifsched"
)

// Exec is what one controlled execution produced.
type Exec struct {
	Outcome    string   // canonical observation (replies + final state), schedule-independent text
	Violations []Viol   // oracle failures local to this execution
	Notes      []string // free text for samples
	NoSerial   bool     // the outcome is not compared with the sequential orders (see conc: timers)
}

type Viol struct{ Sig, What string }

// Scenario describes a closed concurrent system.
type Scenario struct {
	Name string
	// Setup builds fresh instances, registers the threads on run and returns the function
	// that computes the outcome after run.Start() returned.
	Setup func(run *verifsched.Run) (finish func(run *verifsched.Run) Exec)
	// Serial lists the outcomes of all sequential orders (computed without the scheduler).
	// nil = no serialisability oracle.
	Serial func() map[string]string // outcome -> description of the order
}

type Found struct {
	Sig, What string
	Choices   []int
	Outcome   string
}

type Result struct {
	Scenario       string
	Schedules      int64
	Points         int64
	Steps          int64 // thread resumptions (every Yield / lock acquisition / thread start)
	MaxPoints      int
	BoundCompleted int // highest preemption bound fully explored (-1 none)
	BoundAsked     int
	Outcomes       map[string]int64
	Serial         map[string]string
	Found          []Found
	Truncated      bool
	EngineError    string
	Sample         []int
}

type explorer struct {
	sc       Scenario
	bound    int
	deadline time.Time
	res      *Result
	seenSig  map[string]bool
	stop     bool
}

// RunOnce executes one schedule (used for replay and by explore).
func RunOnce(sc Scenario, choices []int) (*verifsched.Run, Exec) {
	run := verifsched.NewRun(choices)
	finish := sc.Setup(run)
	run.Start()
	ex := finish(run)
	if run.Deadlock {
		ex.Violations = append(ex.Violations, Viol{"deadlock", fmt.Sprintf("no thread can run; blocked: %v", run.Blocked)})
		ex.Outcome = "DEADLOCK " + ex.Outcome
	}
	if run.Horizon {
		ex.Violations = append(ex.Violations, Viol{"livelock-horizon", "execution exceeded the point horizon"})
	}
	for i := 0; i < run.NumThreads(); i++ {
		if p := run.ThreadPanic(i); p != "" {
			ex.Violations = append(ex.Violations, Viol{"panic", fmt.Sprintf("thread %d panicked: %s", i, firstLines(p, 12))})
			ex.Outcome = "PANIC " + ex.Outcome
		}
	}
	return run, ex
}

func firstLines(s string, n int) string {
	out := ""
	for i, c := 0, 0; i < len(s); i++ {
		if s[i] == '\n' {
			c++
			if c >= n {
				return out
			}
		}
		out += string(s[i])
	}
	return out
}

func chosen(pts []verifsched.Point) []int {
	c := make([]int, len(pts))
	for i, p := range pts {
		c[i] = p.Chosen
	}
	return c
}

func (e *explorer) record(choices []int, ex Exec) {
	e.res.Outcomes[ex.Outcome]++
	add := func(sig, what string) {
		if e.seenSig[sig] {
			return
		}
		e.seenSig[sig] = true
		e.res.Found = append(e.res.Found, Found{sig, what, append([]int{}, choices...), ex.Outcome})
	}
	for _, v := range ex.Violations {
		add(v.Sig, v.What)
	}
	if e.res.Serial != nil && len(ex.Violations) == 0 && !ex.NoSerial {
		if _, ok := e.res.Serial[ex.Outcome]; !ok {
			var ser []string
			for k := range e.res.Serial {
				ser = append(ser, k)
			}
			sort.Strings(ser)
			add("not-serialisable", fmt.Sprintf("concurrent outcome %q equals no sequential order; sequential outcomes: %q", ex.Outcome, ser))
		}
	}
}

func (e *explorer) explore(prefix []int) {
	if e.stop {
		return
	}
	if time.Now().After(e.deadline) || verifsched.StuckSeen.Load() {
		// (a run of this process ended with a thread blocked outside the modelled
		// synchronisation: reported by that run; nothing further is explored)
		e.stop, e.res.Truncated = true, true
		return
	}
	run, ex := RunOnce(e.sc, prefix)
	if run.Diverged != "" {
		e.stop = true
		e.res.EngineError = "replay divergence: " + run.Diverged
		return
	}
	if run.Stuck {
		// a thread sits in an operation outside the modelled synchronisation: the execution was
		// cut short (so it cannot be compared with its prefix); report it and stop
		e.res.Schedules++
		e.record(chosen(run.Points), ex)
		e.stop, e.res.Truncated = true, true
		return
	}
	pts := run.Points
	for i := 0; i < len(prefix) && i < len(pts); i++ {
		if pts[i].Chosen != prefix[i] {
			e.stop = true
			e.res.EngineError = "replay divergence: recorded choice differs from prefix"
			return
		}
	}
	if len(pts) < len(prefix) {
		e.stop = true
		e.res.EngineError = fmt.Sprintf("replay divergence: prefix of %d choices but execution had only %d choice points; prefix=%v points=%v outcome=%q deadlock=%v", len(prefix), len(pts), prefix, pts, ex.Outcome, run.Deadlock)
		return
	}
	ch := chosen(pts)
	e.res.Schedules++
	e.res.Steps += run.Clock()
	e.res.Points += int64(len(pts))
	if len(pts) > e.res.MaxPoints {
		e.res.MaxPoints = len(pts)
	}
	if e.res.Sample == nil && len(prefix) > 0 {
		e.res.Sample = append([]int{}, ch...)
	}
	e.record(ch, ex)
	cost := 0
	for i := 0; i < len(prefix); i++ {
		if pts[i].Chosen != 0 && pts[i].Current == pts[i].Enabled[0] {
			cost++
		}
	}
	for i := len(prefix); i < len(pts); i++ {
		p := pts[i]
		c := cost
		if p.Current == p.Enabled[0] {
			c++ // switching away from a runnable thread is a preemption
		}
		if c <= e.bound {
			for alt := 1; alt < len(p.Enabled); alt++ {
				e.explore(append(append([]int{}, ch[:i]...), alt))
				if e.stop {
					return
				}
			}
		}
		// pts[i].Chosen == 0 on the default continuation: no cost added
	}
}

// Explore explores sc with preemption bounds 0..bound iteratively within budget.
func Explore(sc Scenario, bound int, budget time.Duration) Result {
	res := Result{Scenario: sc.Name, BoundCompleted: -1, BoundAsked: bound}
	if sc.Serial != nil {
		res.Serial = sc.Serial()
	}
	deadline := time.Now().Add(budget)
	var last Result
	first := 0
	if bound >= 1<<19 {
		first = bound // "no preemption bound": one pass over all interleavings
	}
	for b := first; b <= bound; b++ {
		cur := res
		cur.Outcomes = map[string]int64{}
		cur.Found = nil
		e := &explorer{sc: sc, bound: b, deadline: deadline, res: &cur, seenSig: map[string]bool{}}
		e.explore(nil)
		if cur.EngineError != "" {
			return cur
		}
		if cur.Truncated {
			if last.Outcomes == nil {
				last = cur
			} else {
				// keep the counts of the truncated deeper pass but the completed bound of the previous
				cur.BoundCompleted = last.BoundCompleted
				last = cur
			}
			last.Truncated = true
			return last
		}
		cur.BoundCompleted = b
		last = cur
		if len(cur.Found) > 0 {
			return last // the first counterexample has the fewest preemptions
		}
	}
	return last
}

// ReplayOne re-executes one recorded schedule and returns everything it violates.
func ReplayOne(sc Scenario, choices []int) (Exec, []Viol, string) {
	run, ex := RunOnce(sc, choices)
	if run.Diverged != "" {
		return ex, nil, "replay divergence: " + run.Diverged
	}
	v := append([]Viol{}, ex.Violations...)
	if sc.Serial != nil && len(v) == 0 {
		ser := sc.Serial()
		if _, ok := ser[ex.Outcome]; !ok {
			v = append(v, Viol{"not-serialisable", fmt.Sprintf("concurrent outcome %q equals no sequential order", ex.Outcome)})
		}
	}
	return ex, v, ""
}
