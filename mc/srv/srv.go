// Package srv drives the real server entry points (HandleMsg4/HandleMsg6) through the
// socket-less listeners of hook H1 and collects what they sent.
package srv

import (
	"fmt"
	"io"
	"net"
	"os"
	"path/filepath"
	"runtime/debug"
	"sync"

	"github.com/coredhcp/coredhcp/handler"
	"github.com/coredhcp/coredhcp/logger"
	"github.com/coredhcp/coredhcp/server"
	"github.com/sirupsen/logrus"
	"verifmc/verifsched"

	"golang.org/x/net/ipv4"
	"golang.org/x/net/ipv6"
)

// Quiet routes the single global logrus logger to io.Discard.
func Quiet() {
	l := logger.GetLogger("verif").Logger
	l.SetOutput(io.Discard)
	l.SetLevel(logrus.PanicLevel)
}

// SetLogLevel sets the process-wide log level ("" = the harness default: nothing is logged,
// log statements guarded by a level do not execute; "debug"/"trace" = as with -L debug).
// The output stays discarded, but everything that is logged is formatted.
func SetLogLevel(level string) {
	l := logger.GetLogger("verif").Logger
	lv := logrus.PanicLevel
	if level != "" {
		var err error
		if lv, err = logrus.ParseLevel(level); err != nil {
			panic(err)
		}
	}
	l.SetLevel(lv)
}

func init() { Quiet() }

// Out is everything one datagram caused.
type Out struct {
	Sent   []server.VerifSent
	Frames []server.VerifFrame
	Panic  string // non-empty if HandleMsgN panicked
}

// Replies is the number of datagrams/frames emitted.
func (o Out) Replies() int { return len(o.Sent) + len(o.Frames) }

var v4mu sync.Mutex // the L2 frame sink is process-global

// Fault is the environment fault in force for Run4/Run6 (single-threaded callers set it
// around a pass): SendErr makes every socket write fail with that error, FrameErr makes the
// raw-socket boundary of sendEthernet fail with that error. What was handed to the socket
// is still recorded (VerifSent.Failed).
var Fault struct {
	SendErr  error
	FrameErr error
}

func sendErr() func(server.VerifSent) error {
	if Fault.SendErr == nil {
		return nil
	}
	e := Fault.SendErr
	return func(server.VerifSent) error { return e }
}

// Run4 handles one DHCPv4 datagram. ifi zero value = unbound listener; oobIf 0 = no
// control message.
func Run4(ifi net.Interface, hs []handler.Handler4, dgram []byte, oobIf int, peer *net.UDPAddr) (out Out) {
	v4mu.Lock()
	defer v4mu.Unlock()
	l := server.NewVerifListener4(ifi, hs, &server.VerifIO{Sent: func(s server.VerifSent) { out.Sent = append(out.Sent, s) }, SendErr: sendErr()})
	defer l.Release()
	server.VerifSetFrameSink(func(f server.VerifFrame) { out.Frames = append(out.Frames, f) })
	defer server.VerifSetFrameSink(nil)
	server.VerifSetFrameFault(Fault.FrameErr)
	defer server.VerifSetFrameFault(nil)
	var oob *ipv4.ControlMessage
	if oobIf != 0 {
		oob = &ipv4.ControlMessage{IfIndex: oobIf}
	}
	defer func() {
		if e := recover(); e != nil {
			out.Panic = fmt.Sprintf("%v\n%s", e, trimStack(debug.Stack()))
		}
	}()
	// HandleMsgN returns its buffer to the server's pool, from which Serve takes buffers and
	// reslices them to MaxDatagram: hand it a buffer of that capacity, as Serve would.
	buf := append(make([]byte, 0, server.MaxDatagram), dgram...)
	if peer == nil {
		peer = &net.UDPAddr{IP: net.IPv4zero, Port: 68}
	}
	l.HandleMsg4(buf, oob, peer)
	return
}

// Run4Listen is Run4 on a listener built by the real listen4 from a listen address (real
// socket on an ephemeral port; nothing is read from or written to it). It also returns the
// interface the listener regards itself as bound to.
func Run4Listen(listen *net.UDPAddr, hs []handler.Handler4, dgram []byte, oobIf int, peer *net.UDPAddr) (out Out, bound net.Interface, err error) {
	v4mu.Lock()
	defer v4mu.Unlock()
	l, err := server.VerifListen4(listen, hs, &server.VerifIO{Sent: func(s server.VerifSent) { out.Sent = append(out.Sent, s) }, SendErr: sendErr()})
	if err != nil {
		return out, bound, err
	}
	defer l.Close()
	bound = l.Bound()
	server.VerifSetFrameSink(func(f server.VerifFrame) { out.Frames = append(out.Frames, f) })
	defer server.VerifSetFrameSink(nil)
	var oob *ipv4.ControlMessage
	if oobIf != 0 {
		oob = &ipv4.ControlMessage{IfIndex: oobIf}
	}
	defer func() {
		if e := recover(); e != nil {
			out.Panic = fmt.Sprintf("%v\n%s", e, trimStack(debug.Stack()))
		}
	}()
	buf := append(make([]byte, 0, server.MaxDatagram), dgram...)
	l.HandleMsg4(buf, oob, peer)
	return
}

// Run6 handles one DHCPv6 datagram.
func Run6(ifi net.Interface, hs []handler.Handler6, dgram []byte, oobIf int, peer *net.UDPAddr) (out Out) {
	l := server.NewVerifListener6(ifi, hs, &server.VerifIO{Sent: func(s server.VerifSent) { out.Sent = append(out.Sent, s) }, SendErr: sendErr()})
	defer l.Release()
	var oob *ipv6.ControlMessage
	if oobIf != 0 {
		oob = &ipv6.ControlMessage{IfIndex: oobIf}
	}
	defer func() {
		if e := recover(); e != nil {
			out.Panic = fmt.Sprintf("%v\n%s", e, trimStack(debug.Stack()))
		}
	}()
	// HandleMsgN returns its buffer to the server's pool, from which Serve takes buffers and
	// reslices them to MaxDatagram: hand it a buffer of that capacity, as Serve would.
	buf := append(make([]byte, 0, server.MaxDatagram), dgram...)
	l.HandleMsg6(buf, oob, peer)
	return
}

func trimStack(b []byte) string {
	if len(b) > 1800 {
		b = b[:1800]
	}
	return string(b)
}

// Scratch returns a scratch directory private to this process (tmpfs when available).
// Worker processes inherit VERIF_SCRATCH from the driver, so each one works in its own
// pid-named subdirectory: lease databases and lease files must never be shared.
func Scratch() string {
	scratchOnce.Do(func() {
		base := os.Getenv("VERIF_SCRATCH")
		if base == "" {
			base = "/dev/shm"
			if st, err := os.Stat(base); err != nil || !st.IsDir() {
				base = os.TempDir()
			}
			d, err := os.MkdirTemp(base, "verif-")
			if err != nil {
				panic(err)
			}
			base = d
			os.Setenv("VERIF_SCRATCH", d)
		}
		scratchDir = filepath.Join(base, fmt.Sprintf("p%d", os.Getpid()))
		if err := os.MkdirAll(scratchDir, 0o755); err != nil {
			panic(err)
		}
	})
	return scratchDir
}

var (
	scratchOnce sync.Once
	scratchDir  string
)

// Ifaces lists the host interfaces once.
func Ifaces() []net.Interface {
	ifs, _ := net.Interfaces()
	return ifs
}

// PrefixGate serialises hook H4's handler capture against every other prefix-handler call
// in this process: the capture flag of prefix.VerifCapture is process-global, so while one
// goroutine captures, no other goroutine may enter any prefix handler. Callers of prefix
// handlers hold the read side; NewSys-style constructors hold the write side.
var PrefixGate sync.RWMutex

// L4 is a socket-less DHCPv4 listener that lives across several datagrams (listener state
// is part of the history).
type L4 struct {
	l   *server.VerifListener4
	cur *Out
}

// NewL4 creates a persistent listener. It holds the process-global L2 frame sink until Close.
func NewL4(ifi net.Interface, hs []handler.Handler4) *L4 {
	v4mu.Lock()
	x := &L4{}
	x.l = server.NewVerifListener4(ifi, hs, &server.VerifIO{Sent: func(s server.VerifSent) { x.cur.Sent = append(x.cur.Sent, s) }})
	server.VerifSetFrameSink(func(f server.VerifFrame) { x.cur.Frames = append(x.cur.Frames, f) })
	return x
}

// Handle pushes one datagram through the listener.
func (x *L4) Handle(dgram []byte, oobIf int) (out Out) {
	x.cur = &out
	var oob *ipv4.ControlMessage
	if oobIf != 0 {
		oob = &ipv4.ControlMessage{IfIndex: oobIf}
	}
	defer func() {
		if e := recover(); e != nil {
			out.Panic = fmt.Sprintf("%v\n%s", e, trimStack(debug.Stack()))
		}
	}()
	buf := append(make([]byte, 0, server.MaxDatagram), dgram...)
	x.l.HandleMsg4(buf, oob, &net.UDPAddr{IP: net.IPv4zero, Port: 68})
	return
}

func (x *L4) Close() {
	server.VerifSetFrameSink(nil)
	x.l.Release()
	v4mu.Unlock()
}

// Serve4 pushes the datagrams through the real Serve loop (bufpool.Get -> ReadFrom -> go
// HandleMsg4) under the cooperative scheduler with the default schedule, so that the call
// returns when the loop and every handler goroutine have finished. Needs the instrumented
// build (VERIF_SCHED=1); the caller falls back to Run4 otherwise.
func Serve4(ifi net.Interface, hs []handler.Handler4, dgrams [][]byte, oobIf int) (out Out) {
	v4mu.Lock()
	defer v4mu.Unlock()
	i := 0
	io := &server.VerifIO{
		Sent: func(s server.VerifSent) { out.Sent = append(out.Sent, s) },
		Recv: func(b []byte) (int, int, *net.UDPAddr, bool) {
			if i >= len(dgrams) {
				return 0, 0, nil, false
			}
			d := dgrams[i]
			i++
			return copy(b, d), oobIf, &net.UDPAddr{IP: net.IPv4zero, Port: 68}, true
		},
	}
	l := server.NewVerifListener4(ifi, hs, io)
	defer l.Release()
	server.VerifSetFrameSink(func(f server.VerifFrame) { out.Frames = append(out.Frames, f) })
	defer server.VerifSetFrameSink(nil)
	run := verifsched.NewRun(nil)
	// default schedule (the running thread continues whenever it can) without a bound on the
	// number of choice points: histories of thousands of datagrams go through one loop
	run.Policy, run.MaxSteps = func([]int, int) int { return 0 }, 200_000_000
	run.Spawn("serve", func() { l.Serve() })
	run.Start()
	for t := 0; t < run.NumThreads(); t++ {
		if p := run.ThreadPanic(t); p != "" {
			out.Panic = p
		}
	}
	if run.Deadlock {
		out.Panic = "deadlock: " + fmt.Sprint(run.Blocked)
	}
	return
}

// Serve6 is Serve4 for DHCPv6.
func Serve6(ifi net.Interface, hs []handler.Handler6, dgrams [][]byte, oobIf int, peer *net.UDPAddr) (out Out) {
	i := 0
	io := &server.VerifIO{
		Sent: func(s server.VerifSent) { out.Sent = append(out.Sent, s) },
		Recv: func(b []byte) (int, int, *net.UDPAddr, bool) {
			if i >= len(dgrams) {
				return 0, 0, nil, false
			}
			d := dgrams[i]
			i++
			return copy(b, d), oobIf, peer, true
		},
	}
	l := server.NewVerifListener6(ifi, hs, io)
	defer l.Release()
	run := verifsched.NewRun(nil)
	// default schedule (the running thread continues whenever it can) without a bound on the
	// number of choice points: histories of thousands of datagrams go through one loop
	run.Policy, run.MaxSteps = func([]int, int) int { return 0 }, 200_000_000
	run.Spawn("serve", func() { l.Serve() })
	run.Start()
	for t := 0; t < run.NumThreads(); t++ {
		if p := run.ThreadPanic(t); p != "" {
			out.Panic = p
		}
	}
	if run.Deadlock {
		out.Panic = "deadlock: " + fmt.Sprint(run.Blocked)
	}
	return
}

// Instrumented reports whether this binary was built with the scheduler overlay.
func Instrumented() bool { return os.Getenv("VERIF_SCHED") == "1" }
