// Package verifsched is the drop-in replacement for "sync" that the overlay build points the
// instrumented coredhcp files at, plus the cooperative scheduler behind it (engine E2).
//
// Outside an exploration (no active run) every primitive is a pass-through to the real sync
// package, Yield is a no-op and Go is a plain go statement. During an exploration exactly one
// registered thread runs at a time; Lock/RLock and Yield are scheduling points at which the
// controller picks the next thread according to a choice list.
package verifsched

import (
	"fmt"
	"runtime/debug"
	"sync"
	"sync/atomic"
	"time"
)

// Pass-through aliases for everything of sync the instrumented files might name.
type (
	Map    = sync.Map
	Cond   = sync.Cond
	Locker = sync.Locker
)

var NewCond = sync.NewCond

// ---- run state ---------------------------------------------------------------------

type opKind int

const (
	opYield opKind = iota
	opLock
	opRLock
	opWLock
	opWait
)

type thread struct {
	id      int
	name    string
	wake    chan struct{}
	done    bool
	started bool
	kind    opKind      // pending operation while parked
	on      interface{} // *Mutex or *RWMutex it waits for
	fn      func()
	Panic   string
	timer   *Timer // a timer callback that has not fired yet (enabled once the timer is due)
}

// Point is one scheduling decision with more than one enabled thread.
type Point struct {
	Enabled []int // thread ids in canonical order (running thread first if enabled)
	Chosen  int   // index into Enabled
	Current int   // id of the thread that was running (-1 none); preemption iff Enabled[0]==Current && Chosen!=0
}

// Run is one controlled execution.
type Run struct {
	epoch    uint64
	threads  []*thread
	cur      *thread
	toCtl    chan struct{}
	prefix   []int
	Points   []Point
	Deadlock bool
	Blocked  []string // description of blocked threads on deadlock
	Horizon  bool     // point budget exhausted
	Timers   int      // timers made by AfterFunc inside the run
	Stuck    bool     // a thread blocked outside the modelled synchronisation (also sets Deadlock)
	prog     atomic.Int64
	stuck    atomic.Bool
	Diverged string   // non-empty: a prefix choice was out of range (replay divergence)
	aborting bool
	maxPts   int
	nSteps   int
	poolSeq  int
	clock    int64
	// OnResume, if set, is called by the controller before every resumption of a thread:
	// with a single thread these are exactly the statement boundaries (crash points).
	OnResume func()
	// WaitCost is the virtual time that passes whenever a thread had to wait for a lock
	// (running code takes no virtual time). Instrumented code reads the clock through Now.
	WaitCost time.Duration
	voffset  time.Duration
	// Waits counts lock acquisitions that had to wait.
	Waits int
	// Policy, if set, replaces the choice list: at every point with more than one enabled
	// thread it returns the index (into enabled) of the thread to run. No Points are kept
	// (runs under a policy can have thousands of threads); MaxSteps bounds the run.
	Policy   func(enabled []int, current int) int
	MaxSteps int
}

// RoundRobin is the policy "one step each in thread order": every started thread stays in
// flight until all are done (the widest overlap a schedule can produce).
func RoundRobin(enabled []int, current int) int {
	best, first := -1, 0
	for i, id := range enabled {
		if id < enabled[first] {
			first = i
		}
		if id > current && (best < 0 || id < enabled[best]) {
			best = i
		}
	}
	if best >= 0 {
		return best
	}
	return first
}

// Now replaces time.Now in instrumented files: the real clock plus the virtual time that has
// passed in the controlled run in progress.
func Now() time.Time {
	t := time.Now()
	if g := globalOffset.Load(); g != 0 {
		// whole seconds, added outside time.Duration: explorations replay "time passes"
		// operations millions of times, far beyond the 292 years a Duration can hold
		t = time.Unix(t.Unix()+g, int64(t.Nanosecond()))
	}
	if r := active.Load(); r != nil {
		return t.Add(r.voffset)
	}
	return t
}

// globalOffset (seconds) is virtual time that has passed outside controlled runs (explicit-state
// explorations of instrumented code use it as their "time passes" operation).
var globalOffset atomic.Int64

// clockGate keeps the global virtual clock from jumping while code under test is in the
// middle of an operation (explorations run many instances in parallel goroutines; between
// operations any amount of time may pass, inside one it must not).
var clockGate sync.RWMutex

// HoldClock is called by harnesses around one operation of the code under test; the returned
// function releases the hold.
func HoldClock() func() {
	clockGate.RLock()
	return clockGate.RUnlock
}

// AdvanceGlobal lets d of virtual time pass for all instrumented code of the process (between
// operations: it waits for operations in progress).
func AdvanceGlobal(d time.Duration) {
	clockGate.Lock()
	globalOffset.Add(int64(d / time.Second))
	clockGate.Unlock()
}

// Advance lets virtual time pass in the controlled run in progress (a handler that takes long);
// outside a run it does nothing.
func Advance(d time.Duration) {
	if r := active.Load(); r != nil {
		r.voffset += d
	}
}

// VOffset is the virtual time that has passed inside the controlled run in progress.
func VOffset() time.Duration {
	if r := active.Load(); r != nil {
		return r.voffset
	}
	return 0
}

// Until and Since replace time.Until and time.Since in instrumented files.
func Until(t time.Time) time.Duration { return t.Sub(Now()) }
func Since(t time.Time) time.Duration { return Now().Sub(t) }

// waited is called by a thread that has just been granted a lock it found held.
func (r *Run) waited() {
	r.Waits++
	r.voffset += r.WaitCost
}

// Clock is a logical time that advances every time a thread is resumed; usable as
// call/return timestamps of operations inside a controlled run.
func (r *Run) Clock() int64 { return r.clock }

// Steps is the number of thread resumptions of the run.
func (r *Run) Steps() int { return int(r.clock) }

// Current returns the Run in progress (nil outside an exploration).
func Current() *Run { return active.Load() }

var (
	active   atomic.Pointer[Run]
	epochSeq atomic.Uint64
)

type abortSentinel struct{}

// Active reports whether an exploration is running (harness helpers use it).
func Active() bool { return active.Load() != nil }

// NewRun prepares a controlled execution that will follow prefix at its first choice points
// and take choice 0 afterwards.
func NewRun(prefix []int) *Run {
	return &Run{epoch: epochSeq.Add(1), toCtl: make(chan struct{}), prefix: prefix, maxPts: 20000}
}

// Spawn registers a thread before Start (or, from a running thread, via Go).
func (r *Run) Spawn(name string, fn func()) int {
	t := &thread{id: len(r.threads), name: name, wake: make(chan struct{}), fn: fn}
	r.threads = append(r.threads, t)
	return t.id
}

func (r *Run) launch(t *thread) {
	t.started = true
	go func() {
		<-t.wake
		defer func() {
			if e := recover(); e != nil {
				if _, ok := e.(abortSentinel); !ok {
					st := debug.Stack()
					if len(st) > 2500 {
						st = st[:2500]
					}
					t.Panic = fmt.Sprintf("%v\n%s", e, st)
				}
			}
			t.done = true
			r.toCtl <- struct{}{}
		}()
		if r.aborting {
			return
		}
		t.fn()
	}()
}

func (r *Run) enabled(t *thread) bool {
	if t.done {
		return false
	}
	if !t.started {
		if t.timer != nil {
			// a timer callback: may start at any moment from when the timer is due (virtual time)
			return t.timer.armed && t.timer.thr == t && r.voffset >= t.timer.due
		}
		return true
	}
	switch t.kind {
	case opLock:
		return !t.on.(*Mutex).isLocked(r)
	case opRLock:
		m := t.on.(*RWMutex)
		if m.hasWriter(r) {
			return false
		}
		// sync.RWMutex gives a waiting writer precedence: once a goroutine has called Lock,
		// new RLock calls block until that writer is done (this is what makes recursive
		// read locking deadlock-prone)
		for _, u := range r.threads {
			if u != t && u.started && !u.done && u.kind == opWLock && u.on == interface{}(m) {
				return false
			}
		}
		return true
	case opWLock:
		return t.on.(*RWMutex).free(r)
	case opWait:
		return t.on.(*WaitGroup).count(r) <= 0
	}
	return true
}

// Start runs the execution to completion (all threads done, deadlock, or horizon).
func (r *Run) Start() {
	if !active.CompareAndSwap(nil, r) {
		panic("verifsched: an exploration is already active")
	}
	defer active.Store(nil)
	monitorOnce.Do(func() { go monitor() })
	for {
		var en []*thread
		if r.cur != nil && r.enabled(r.cur) {
			en = append(en, r.cur)
		}
		for _, t := range r.threads {
			if t != r.cur && r.enabled(t) {
				en = append(en, t)
			}
		}
		if len(en) == 0 {
			alive := false
			for _, t := range r.threads {
				if !t.done && !t.started && t.timer != nil {
					// a timer that is stopped, superseded or not due when everything else is over
					// never fires within this execution
					t.done = true
					continue
				}
				if !t.done {
					alive = true
					r.Blocked = append(r.Blocked, fmt.Sprintf("%s(op %d)", t.name, t.kind))
				}
			}
			if alive {
				r.Deadlock = true
				r.abort()
			}
			return
		}
		pick := 0
		if len(en) > 1 && r.Policy != nil {
			ids := make([]int, len(en))
			for i, t := range en {
				ids[i] = t.id
			}
			c := -1
			if r.cur != nil {
				c = r.cur.id
			}
			pick = r.Policy(ids, c)
			r.nSteps++
			if r.MaxSteps > 0 && r.nSteps >= r.MaxSteps {
				r.Horizon = true
				r.abort()
				return
			}
		} else if len(en) > 1 {
			idx := len(r.Points)
			if idx < len(r.prefix) {
				pick = r.prefix[idx]
				if pick < 0 || pick >= len(en) {
					r.Diverged = fmt.Sprintf("choice %d at point %d but only %d threads enabled", pick, idx, len(en))
					r.abort()
					return
				}
			}
			ids := make([]int, len(en))
			for i, t := range en {
				ids[i] = t.id
			}
			c := -1
			if r.cur != nil {
				c = r.cur.id
			}
			r.Points = append(r.Points, Point{Enabled: ids, Chosen: pick, Current: c})
			if len(r.Points) >= r.maxPts {
				r.Horizon = true
				r.abort()
				return
			}
		}
		t := en[pick]
		r.cur = t
		r.clock++
		if r.OnResume != nil {
			r.OnResume()
		}
		if !t.started {
			r.launch(t)
		}
		r.prog.Add(1)
		t.wake <- struct{}{}
		<-r.toCtl
		if r.stuck.Load() {
			// the thread did not come back within StuckAfter of real time: it sits in an operation
			// the shim does not model (a channel, a socket). It is left behind; the run ends as a
			// deadlock and the exploration stops (see StuckSeen).
			r.Stuck, r.Deadlock = true, true
			r.Blocked = append(r.Blocked, fmt.Sprintf("%s (blocked for more than %v of real time in an operation outside the modelled synchronisation: channel or socket)", t.name, StuckAfter))
			t.done = true
			StuckSeen.Store(true)
			r.abort()
			return
		}
	}
}

// StuckAfter is how long (real time) a thread may run between two scheduling points before
// the run is declared stuck. Steps take microseconds; this only ever fires for a thread that
// blocks forever in something that is not a lock of the shim.
var StuckAfter = 180 * time.Second

// StuckSeen is set once a run of this process ended stuck; explorers stop when they see it
// (every further execution would wait StuckAfter again, and the thread left behind may still
// hold process-wide state).
var StuckSeen atomic.Bool

var monitorOnce sync.Once

func monitor() {
	var last *Run
	var lastProg int64
	since := time.Now()
	for {
		time.Sleep(time.Second)
		r := active.Load()
		if r == nil {
			last = nil
			continue
		}
		if p := r.prog.Load(); r != last || p != lastProg {
			last, lastProg, since = r, p, time.Now()
			continue
		}
		if time.Since(since) > StuckAfter && !r.stuck.Swap(true) {
			select {
			case r.toCtl <- struct{}{}:
			case <-time.After(10 * time.Second):
			}
		}
	}
}

// abort unwinds every thread that is still parked.
func (r *Run) abort() {
	r.aborting = true
	for _, t := range r.threads {
		if t.done {
			continue
		}
		if !t.started {
			t.done = true
			continue
		}
		r.cur = t
		t.wake <- struct{}{}
		<-r.toCtl
	}
}

// ThreadPanic returns the panic text of thread id ("" if none).
func (r *Run) ThreadPanic(id int) string { return r.threads[id].Panic }

// NumThreads returns how many threads were registered.
func (r *Run) NumThreads() int { return len(r.threads) }

// park hands control to the controller until this thread is chosen again.
func (r *Run) park(kind opKind, on interface{}) {
	t := r.cur
	t.kind, t.on = kind, on
	r.toCtl <- struct{}{}
	<-t.wake
	if r.aborting {
		panic(abortSentinel{})
	}
}

// ---- primitives --------------------------------------------------------------------

// YieldOff turns the statement-level points off: only lock acquisitions, thread starts and
// thread ends remain scheduling points (used for the unbounded synchronisation-level pass).
var YieldOff atomic.Bool

// Yield is injected before every statement of the instrumented files.
func Yield() {
	if r := active.Load(); r != nil && !r.aborting && !YieldOff.Load() {
		r.park(opYield, nil)
	}
}

// Go replaces the go statement.
func Go(f func()) {
	r := active.Load()
	if r == nil || r.aborting {
		go f()
		return
	}
	r.Spawn(fmt.Sprintf("go#%d", len(r.threads)), f)
}

// Timer replaces time.Timer for timers made by AfterFunc (the instrumenter rewrites both).
// Inside a controlled run the callback is a thread of the run that becomes enabled when the
// virtual clock reaches the deadline; when it actually starts is a scheduling choice like
// any other. As with the runtime's timers, Reset and Stop cannot take back a callback that
// has already started.
type Timer struct {
	real  *time.Timer
	run   *Run
	fn    func()
	due   time.Duration // virtual time of the run (offset) at which the timer is due
	armed bool
	thr   *thread // the callback thread of the current arming
}

// AfterFunc replaces time.AfterFunc.
func AfterFunc(d time.Duration, f func()) *Timer {
	r := active.Load()
	if r == nil || r.aborting {
		return &Timer{real: time.AfterFunc(d, f)}
	}
	t := &Timer{run: r, fn: f}
	t.arm(d)
	r.Timers++
	return t
}

func (t *Timer) arm(d time.Duration) {
	r := t.run
	t.due, t.armed = r.voffset+d, true
	if t.thr != nil && !t.thr.started && !t.thr.done {
		return // the pending callback thread serves the new deadline
	}
	id := r.Spawn(fmt.Sprintf("timer#%d", len(r.threads)), func() {
		t.armed = false
		t.fn()
	})
	t.thr = r.threads[id]
	t.thr.timer = t
}

// Reset re-arms the timer; it reports whether the timer was still pending.
func (t *Timer) Reset(d time.Duration) bool {
	if t.real != nil {
		return t.real.Reset(d)
	}
	if r := active.Load(); r != t.run || r.aborting {
		return false // the run that made the timer is over
	}
	was := t.armed
	t.arm(d)
	return was
}

// Stop prevents the timer from firing; it reports whether the timer was still pending.
func (t *Timer) Stop() bool {
	if t.real != nil {
		return t.real.Stop()
	}
	was := t.armed
	t.armed = false
	return was
}

// Mutex replaces sync.Mutex.
type Mutex struct {
	real   sync.Mutex
	epoch  uint64
	locked bool
}

func (m *Mutex) isLocked(r *Run) bool { return m.epoch == r.epoch && m.locked }

func (m *Mutex) Lock() {
	r := active.Load()
	if r == nil {
		m.real.Lock()
		return
	}
	if r.aborting {
		return
	}
	held := m.isLocked(r)
	r.park(opLock, m) // resumed only when the mutex is free
	if held {
		r.waited()
	}
	m.epoch, m.locked = r.epoch, true
}

func (m *Mutex) TryLock() bool {
	r := active.Load()
	if r == nil {
		return m.real.TryLock()
	}
	if m.isLocked(r) {
		return false
	}
	m.epoch, m.locked = r.epoch, true
	return true
}

func (m *Mutex) Unlock() {
	r := active.Load()
	if r == nil {
		m.real.Unlock()
		return
	}
	if r.aborting {
		return
	}
	if !m.isLocked(r) {
		panic("verifsched: unlock of unlocked mutex")
	}
	m.locked = false
}

// RWMutex replaces sync.RWMutex.
type RWMutex struct {
	real    sync.RWMutex
	epoch   uint64
	writer  bool
	readers int
}

func (m *RWMutex) sync(r *Run) {
	if m.epoch != r.epoch {
		m.epoch, m.writer, m.readers = r.epoch, false, 0
	}
}
func (m *RWMutex) hasWriter(r *Run) bool { m.sync(r); return m.writer }
func (m *RWMutex) free(r *Run) bool      { m.sync(r); return !m.writer && m.readers == 0 }

func (m *RWMutex) Lock() {
	r := active.Load()
	if r == nil {
		m.real.Lock()
		return
	}
	if r.aborting {
		return
	}
	held := !m.free(r)
	r.park(opWLock, m)
	if held {
		r.waited()
	}
	m.sync(r)
	m.writer = true
}

func (m *RWMutex) Unlock() {
	r := active.Load()
	if r == nil {
		m.real.Unlock()
		return
	}
	if r.aborting {
		return
	}
	m.sync(r)
	if !m.writer {
		panic("verifsched: unlock of unlocked rwmutex")
	}
	m.writer = false
}

func (m *RWMutex) RLock() {
	r := active.Load()
	if r == nil {
		m.real.RLock()
		return
	}
	if r.aborting {
		return
	}
	held := m.hasWriter(r)
	r.park(opRLock, m)
	if held {
		r.waited()
	}
	m.sync(r)
	m.readers++
}

func (m *RWMutex) RUnlock() {
	r := active.Load()
	if r == nil {
		m.real.RUnlock()
		return
	}
	if r.aborting {
		return
	}
	m.sync(r)
	if m.readers <= 0 {
		panic("verifsched: runlock of unlocked rwmutex")
	}
	m.readers--
}

func (m *RWMutex) TryLock() bool {
	r := active.Load()
	if r == nil {
		return m.real.TryLock()
	}
	if !m.free(r) {
		return false
	}
	m.writer = true
	return true
}

func (m *RWMutex) TryRLock() bool {
	r := active.Load()
	if r == nil {
		return m.real.TryRLock()
	}
	if m.hasWriter(r) {
		return false
	}
	m.readers++
	return true
}

func (m *RWMutex) RLocker() sync.Locker { return (*rlocker)(m) }

type rlocker RWMutex

func (l *rlocker) Lock()   { (*RWMutex)(l).RLock() }
func (l *rlocker) Unlock() { (*RWMutex)(l).RUnlock() }

// Pool replaces sync.Pool. During an exploration it is an adversarial LIFO: Get always hands
// back the most recently Put object (a real sync.Pool may do exactly that).
type Pool struct {
	New   func() interface{}
	real  sync.Pool
	epoch uint64
	stack []interface{}
}

func (p *Pool) Get() interface{} {
	r := active.Load()
	if r == nil {
		if v := p.real.Get(); v != nil {
			return v
		}
		if p.New != nil {
			return p.New()
		}
		return nil
	}
	if p.epoch != r.epoch {
		p.epoch, p.stack = r.epoch, nil
	}
	if n := len(p.stack); n > 0 {
		v := p.stack[n-1]
		p.stack = p.stack[:n-1]
		return v
	}
	if p.New != nil {
		return p.New()
	}
	return nil
}

func (p *Pool) Put(x interface{}) {
	r := active.Load()
	if r == nil {
		p.real.Put(x)
		return
	}
	if p.epoch != r.epoch {
		p.epoch, p.stack = r.epoch, nil
	}
	p.stack = append(p.stack, x)
}

// WaitGroup replaces sync.WaitGroup: Wait is a scheduling point that is enabled once the
// counter is zero (a pass-through Wait would block the only running goroutine).
type WaitGroup struct {
	real  sync.WaitGroup
	epoch uint64
	n     int
}

func (w *WaitGroup) count(r *Run) int {
	if w.epoch != r.epoch {
		w.epoch, w.n = r.epoch, 0
	}
	return w.n
}

func (w *WaitGroup) Add(d int) {
	r := active.Load()
	if r == nil || r.aborting {
		w.real.Add(d)
		return
	}
	w.count(r)
	w.n += d
	if w.n < 0 {
		panic("sync: negative WaitGroup counter")
	}
}

func (w *WaitGroup) Done() { w.Add(-1) }

func (w *WaitGroup) Wait() {
	r := active.Load()
	if r == nil {
		w.real.Wait()
		return
	}
	if r.aborting {
		return
	}
	r.park(opWait, w)
}

// Once replaces sync.Once: a second caller waits (as a scheduling point) for the first.
type Once struct {
	real sync.Once
	m    Mutex
	done atomic.Bool
}

func (o *Once) Do(f func()) {
	if o.done.Load() {
		return
	}
	r := active.Load()
	if r == nil || r.aborting {
		o.real.Do(func() {
			defer o.done.Store(true)
			f()
		})
		return
	}
	o.m.Lock()
	defer o.m.Unlock()
	if !o.done.Load() {
		defer o.done.Store(true)
		f()
	}
}
