package verifsched

import "testing"

// all schedules (choice lists up to length 6 over 2 alternatives) of a WaitGroup/Once harness
func TestWaitGroupOnce(t *testing.T) {
	var prefixes [][]int
	var gen func(p []int)
	gen = func(p []int) {
		prefixes = append(prefixes, append([]int{}, p...))
		if len(p) == 6 {
			return
		}
		for c := 0; c < 3; c++ {
			gen(append(p, c))
		}
	}
	gen(nil)
	ok := 0
	for _, p := range prefixes {
		var wg WaitGroup
		var once Once
		inits, after := 0, 0
		run := NewRun(p)
		run.Spawn("main", func() {
			wg.Add(2)
			for i := 0; i < 2; i++ {
				Go(func() {
					Yield()
					once.Do(func() { Yield(); inits++ })
					Yield()
					wg.Done()
				})
			}
			wg.Wait()
			after = inits
		})
		run.Start()
		if run.Diverged != "" {
			continue
		}
		if run.Deadlock {
			t.Fatalf("prefix %v: deadlock %v", p, run.Blocked)
		}
		if inits != 1 || after != 1 {
			t.Fatalf("prefix %v: inits=%d after=%d", p, inits, after)
		}
		ok++
	}
	if ok < 20 {
		t.Fatalf("only %d schedules ran", ok)
	}
	t.Logf("%d schedules", ok)
}
