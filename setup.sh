#!/bin/bash
# setup_cmd: offline pre-build of every check binary (warms GOCACHE; nothing is fetched).
set -e
cd "$(dirname "$0")"
export GOFLAGS=-mod=mod GOPROXY=off GOSUMDB=off GOTOOLCHAIN=local
cp /repo/go.sum mc/go.sum
mkdir -p .build evidence replays
(cd mc && go build -tags verif -o ../.build/mc ./cmd/mc)
OV=$(mktemp -d /tmp/verif-setup-XXXXXX)
trap 'rm -rf "$OV"' EXIT
(cd mc && go run ./cmd/instr -repo /repo -out "$OV" && go build -tags verif -overlay "$OV/overlay.json" -o ../.build/mc-sched ./cmd/mc)
(cd mc && VERIF_INSTR_EXTRA=plugins/allocators go run ./cmd/instr -repo /repo -out "$OV/x" && go build -tags verif -overlay "$OV/x/overlay.json" -o ../.build/mc-sched-x ./cmd/mc)
(cd mc && go build -tags verif -race -o ../.build/mc-race ./cmd/mc)
echo setup ok
