#!/bin/bash
# setup_cmd: offline pre-build of every check binary (warms GOCACHE; nothing is fetched).
set -e
cd "$(dirname "$0")"
export GOFLAGS=-mod=mod GOPROXY=off GOSUMDB=off GOTOOLCHAIN=local
cp /repo/go.sum mc/go.sum
mkdir -p .build evidence replays
(cd mc && go build -tags verif -o ../.build/mc ./cmd/mc)
echo setup ok
