#!/usr/bin/env python3
"""Prints the section-10 status table of DESIGN.md from the evidence files (quick tier in
/verif/evidence, thorough tier in /verif/evidence-thorough if present)."""
import json, glob, os, sys
ENG = {"C01": "E3 + E1 + E2", "C02": "E1 + E2", "C03": "E1 + crash images + E2 (virtual clock)", "C04": "E1 + E2 + porcupine",
       "C05": "E1 + sweeps + E2", "C06": "E1 + sweeps + E2", "C07": "E1 + sweeps", "C08": "E1 + E2", "C09": "E1", "C10": "E3 + E1 + binding runs",
       "C11": "E3 + E2", "C12": "E3 + E2", "C13": "E3 + E2 + binding run", "C14": "E3", "C15": "E3", "C16": "E2 + E4 + wide + binding run",
       "C17": "E3", "C18": "E3", "C19": "E3 + E1", "C20": "E3 + E2"}
def row(d):
    c = d["coverage"]
    parts = []
    for k, label in (("evaluations", "evaluations"), ("distinct_nontrivial", "classes"), ("states", "states"), ("transitions", "transitions"), ("schedules", "schedules")):
        if c.get(k):
            parts.append(f"{c[k]:,} {label}".replace(",", " "))
    parts.append(f"{d['wall_s']:.0f} s")
    if not c.get("exhaustive", True):
        parts.append("exhaustive=false")
    return ", ".join(parts)
print("| id | engines | quick (measured) | thorough (measured) |")
print("|---|---|---|---|")
for i in range(1, 21):
    pid = "C%02d" % i
    q = json.load(open(f"/verif/evidence/{pid}.json"))
    tpath = f"/verif/evidence-thorough/{pid}.json"
    t = row(json.load(open(tpath))) if os.path.exists(tpath) else "-"
    print(f"| {pid} | {ENG[pid]} | {row(q)} | {t} |")
